// Package selval monitors the default selector validation (C08) against an
// independent recursive-descent analyser of the selector spec.
package selval

import (
	"fmt"
	"testing"

	"github.com/ipld/go-ipld-prime"
	"github.com/ipld/go-ipld-prime/codec/dagjson"
	"github.com/ipld/go-ipld-prime/datamodel"
	"github.com/ipld/go-ipld-prime/traversal/selector"
	"github.com/ipld/go-ipld-prime/traversal/selector/builder"

	"github.com/ipfs/go-graphsync/selectorvalidator"

	"verif/harness/gen"
	"verif/harness/rt"
)

func toJSON(n datamodel.Node) string {
	b, err := ipld.Encode(n, dagjson.Encode)
	if err != nil {
		return "<unencodable>"
	}
	return string(b)
}

var plantLimits = []int64{-1, 101, 1000000, 102, -1, 100, 99, 1, 0}

// TestValidator: grammar-generated selectors with planted limits; the
// validator's verdict must equal the reference analyser's.
func TestValidator(t *testing.T) {
	p := rt.Load()
	rep := rt.NewReporter(p)
	defer rep.Flush(false)
	var accepted, rejected, skipped, badUnder int64
	for _, c := range p.Cases() {
		r := p.RNG("selval", c)
		o := gen.ShapeOpts()
		o.MaxDepth = 2 + r.Intn(5)
		o.RecursionP = 35
		// plant at most one offending limit at a random recursion, in half the cases
		plantAt := -1
		if r.Intn(5) < 3 {
			plantAt = r.Intn(3)
		}
		seen := 0
		planted := int64(-2)
		var spec datamodel.Node
		if c%4 == 3 {
			// deep linear chain of 1..80 clauses around one recursion with a planted limit
			n := 1 + r.Intn(40)
			if r.Intn(3) == 0 {
				n = 10 + r.Intn(12)
			}
			planted = plantLimits[r.Intn(len(plantLimits))]
			spec = gen.GenChain(r, n, func(inRec bool) builder.SelectorSpec { return gen.Recursion(planted) })
			rep.Max("max_chain_depth", int64(n))
		} else {
			spec = gen.GenSelector(r, o, func(nesting int, path string) (int64, bool) {
				defer func() { seen++ }()
				if seen == plantAt {
					planted = plantLimits[r.Intn(len(plantLimits))]
					return planted, true
				}
				return 0, false
			})
		}
		if c%256 == 0 {
			rep.Journal("case %d", c)
		}
		if _, err := selector.ParseSelector(spec); err != nil {
			skipped++
			continue
		}
		var bad []string
		if !gen.Analyse(spec, 100, "", &bad) {
			skipped++
			continue
		}
		rep.Eval()
		err := selectorvalidator.ValidateMaxRecursionDepth(spec, 100)
		js := toJSON(spec)
		rep.Nontrivial(rt.Key(js))
		for _, b := range bad {
			rep.SetAdd("offending_recursion_contexts", contextOf(b))
		}
		if len(bad) > 0 {
			rejected++
			for _, b := range bad {
				if containsInterpretAs(b) {
					badUnder++
				}
			}
		} else {
			accepted++
		}
		switch {
		case len(bad) > 0 && err == nil:
			sig := "C08/accepted-offending-recursion"
			allUnder := true
			for _, b := range bad {
				if !containsInterpretAs(b) {
					allUnder = false
				}
			}
			if allUnder {
				sig = "C08/accepted-offending-recursion-under-interpret-as"
			}
			rep.Violation(c, sig, fmt.Sprintf("validator accepted a selector with offending recursion(s) %v", bad), map[string]any{"selector": js, "offending": bad})
		case len(bad) == 0 && err != nil:
			rep.Violation(c, "C08/rejected-valid-selector", fmt.Sprintf("validator rejected (%v) a selector whose recursions are all bounded by <= 100", err), map[string]any{"selector": js})
		}
		if c%5000 == 0 {
			rep.Sample(map[string]any{"selector": js, "offending": bad, "validator_error": fmt.Sprint(err)})
		}
	}
	rep.Count("selectors_without_offending_recursion", accepted)
	rep.Count("selectors_with_offending_recursion", rejected)
	rep.Count("offending_recursions_under_interpret_as", badUnder)
	rep.Count("generated_but_skipped", skipped)
	rep.Flush(true)
}

func containsInterpretAs(path string) bool {
	for i := 0; i+1 < len(path); i++ {
		if path[i] == '/' && path[i+1] == '~' {
			return true
		}
	}
	return false
}

// contextOf reduces a path like /a/f/R/|/R(none) to the multiset-free list of clause kinds + limit kind.
func contextOf(path string) string {
	kinds := map[byte]bool{}
	for i := 0; i+1 < len(path); i++ {
		if path[i] == '/' {
			kinds[path[i+1]] = true
		}
	}
	s := ""
	for _, k := range []byte("afir|~R") {
		if kinds[k] {
			s += string(k)
		}
	}
	if len(path) > 6 && path[len(path)-6:] == "(none)" {
		return s + ":none"
	}
	return s + ":depth"
}

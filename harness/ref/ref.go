// Package ref holds the reference models (oracles). They are written from the
// property statements and use only go-ipld-prime's own traversal (a
// dependency), none of go-graphsync's traverser, loaders, reconciliation or
// wire code.
package ref

import (
	"bytes"
	"crypto/sha256"
	"encoding/hex"
	"fmt"
	"io"
	"strings"

	"github.com/ipfs/go-cid"
	dagpb "github.com/ipld/go-codec-dagpb"
	"github.com/ipld/go-ipld-prime"
	"github.com/ipld/go-ipld-prime/codec/dagcbor"
	_ "github.com/ipld/go-ipld-prime/codec/raw" // raw leaves must decode
	"github.com/ipld/go-ipld-prime/datamodel"
	"github.com/ipld/go-ipld-prime/linking"
	cidlink "github.com/ipld/go-ipld-prime/linking/cid"
	"github.com/ipld/go-ipld-prime/node/basicnode"
	"github.com/ipld/go-ipld-prime/traversal"
	"github.com/ipld/go-ipld-prime/traversal/selector"
)

// Source says where a link load resolved.
type Source int

const (
	Local Source = iota
	Remote
	Missing
)

func (s Source) String() string { return [...]string{"local", "remote", "missing"}[s] }

// Visit is one node visit of the traversal.
type Visit struct {
	Path      string
	LastBlock string // cid of the last block edge ("" for the root block's nodes)
	LastPath  string
	Digest    string
}

func (v Visit) String() string {
	return fmt.Sprintf("%q@%s#%s", v.Path, short(v.LastBlock), v.Digest[:8])
}

func short(s string) string {
	if len(s) > 10 {
		return s[len(s)-8:]
	}
	return s
}

// Load is one link load of the traversal.
type Load struct {
	Link      cid.Cid
	Path      string
	Source    Source
	RespReach bool // the responder's own traversal also performs this load
	RespHas   bool // ... and the responder holds the block
}

// Outcome is everything the reference traversal produces.
type Outcome struct {
	Visits               []Visit
	Loads                []Load
	MissingLoads         []Load           // loads that resolve to Missing
	RemoteObtained       map[cid.Cid]bool // blocks that must end up in the requestor store
	LocalBeforeFirstMiss int              // number of loads resolved locally before the first load that is not local
	AllLocal             bool
	RootMissing          bool
	Err                  error // traversal error other than skipped links (selector/data mismatch, budget)
	Panicked             bool
	TooBig               bool
	RespLoads            []Load // the loads the responder's own traversal performs, in order (RespHas = present)
}

// Digest hashes a node's content.
func Digest(n datamodel.Node) string {
	var buf bytes.Buffer
	if err := dagcbor.Encode(n, &buf); err != nil {
		return "kind:" + n.Kind().String() + ":" + err.Error()
	}
	h := sha256.Sum256(buf.Bytes())
	return hex.EncodeToString(h[:])
}

// MaxLoads bounds the size of cases (link loads of the reference traversal).
const MaxLoads = 4000

// Has is a block lookup.
type Has func(c cid.Cid) ([]byte, bool)

var chooser = dagpb.AddSupportToChooser(basicnode.Chooser)

// TwoStore runs the reference traversal of (root, selector) where each link at
// path p resolves
//
//	local    if the requestor holds it (initially or because it was obtained remotely earlier),
//	remote   if the responder can itself reach p and holds it,
//	missing  otherwise (the link is skipped).
//
// budget > 0 limits the number of link loads (root included) like a link budget.
func TwoStore(root cid.Cid, selNode datamodel.Node, reqHas, respHas Has, budget int64) (out Outcome) {
	out = Outcome{RemoteObtained: map[cid.Cid]bool{}, AllLocal: true}
	defer func() {
		if rec := recover(); rec != nil {
			out.Err = fmt.Errorf("reference traversal panicked: %v", rec)
			out.Panicked = true
		}
	}()
	obtained := map[cid.Cid][]byte{}
	reach := map[string]bool{} // load path -> responder reaches below it (reach(q) && respHas(link at q))
	firstMissSeen := false

	lsys := cidlink.DefaultLinkSystem()
	lsys.TrustedStorage = true
	lsys.StorageReadOpener = func(lctx linking.LinkContext, lnk datamodel.Link) (io.Reader, error) {
		if len(out.Loads) >= MaxLoads {
			// shared sub-DAGs under an unbounded recursion can make a traversal exponentially long:
			// such cases are not used (the generators draw another one)
			out.TooBig = true
			return nil, fmt.Errorf("reference traversal exceeds %d link loads", MaxLoads)
		}
		c := lnk.(cidlink.Link).Cid
		p := lctx.LinkPath.String()
		// reach(p): longest proper prefix of p that is a load path
		parentReach := true
		if len(out.Loads) > 0 { // not the root
			segs := lctx.LinkPath.Segments()
			found := false
			for i := len(segs) - 1; i >= 0 && !found; i-- {
				q := datamodel.NewPathNocopy(segs[:i]).String()
				if v, ok := reach[q]; ok {
					parentReach = v
					found = true
				}
			}
		}
		_, rHas := respHas(c)
		ld := Load{Link: c, Path: p, RespReach: parentReach, RespHas: parentReach && rHas}
		reach[p] = parentReach && rHas
		if parentReach {
			out.RespLoads = append(out.RespLoads, Load{Link: c, Path: p, RespReach: true, RespHas: rHas})
		}
		var data []byte
		if d, ok := reqHas(c); ok {
			ld.Source = Local
			data = d
		} else if d, ok := obtained[c]; ok {
			ld.Source = Local
			data = d
		} else if parentReach && rHas {
			ld.Source = Remote
			data, _ = respHas(c)
			obtained[c] = data
			out.RemoteObtained[c] = true
		} else {
			ld.Source = Missing
		}
		if ld.Source != Local {
			out.AllLocal = false
			firstMissSeen = true
		} else if !firstMissSeen {
			out.LocalBeforeFirstMiss++
		}
		out.Loads = append(out.Loads, ld)
		if ld.Source == Missing {
			out.MissingLoads = append(out.MissingLoads, ld)
			return nil, traversal.SkipMe{}
		}
		return bytes.NewReader(data), nil
	}

	var bud *traversal.Budget
	if budget > 0 {
		bud = &traversal.Budget{NodeBudget: 1 << 62, LinkBudget: budget}
	}
	rootLink := cidlink.Link{Cid: root}
	ns, err := chooser(rootLink, ipld.LinkContext{})
	if err != nil {
		out.Err = err
		return out
	}
	if bud != nil {
		// the root counts as one load
		if bud.LinkBudget <= 0 {
			out.Err = &traversal.ErrBudgetExceeded{BudgetKind: "link", Link: rootLink}
			return out
		}
		bud.LinkBudget--
	}
	nd, err := lsys.Load(ipld.LinkContext{}, rootLink, ns)
	if err != nil {
		if _, ok := err.(traversal.SkipMe); ok {
			out.RootMissing = true
			return out
		}
		out.Err = err
		return out
	}
	// IPLD map key order is not significant: traverse with the selector in its canonical
	// (dag-cbor) form, which is also what a responder decodes from the wire
	if enc, eerr := ipld.Encode(selNode, dagcbor.Encode); eerr == nil {
		if canon, derr := ipld.Decode(enc, dagcbor.Decode); derr == nil {
			selNode = canon
		}
	}
	sel, err := selector.ParseSelector(selNode)
	if err != nil {
		out.Err = err
		return out
	}
	err = traversal.Progress{
		Cfg:    &traversal.Config{LinkSystem: lsys, LinkTargetNodePrototypeChooser: chooser},
		Budget: bud,
	}.WalkAdv(nd, sel, func(p traversal.Progress, n datamodel.Node, _ traversal.VisitReason) error {
		v := Visit{Path: p.Path.String(), Digest: Digest(n)}
		if p.LastBlock.Link != nil {
			v.LastBlock = p.LastBlock.Link.String()
			v.LastPath = p.LastBlock.Path.String()
		}
		out.Visits = append(out.Visits, v)
		return nil
	})
	out.Err = err
	return out
}

// SingleStore is the responder's own traversal over its store: the ordered
// (link, present?) list.
func SingleStore(root cid.Cid, selNode datamodel.Node, has Has, budget int64) Outcome {
	none := func(cid.Cid) ([]byte, bool) { return nil, false }
	// a requestor with an empty store talking to this responder performs exactly the responder's loads
	return TwoStore(root, selNode, none, has, budget)
}

// FmtLoads renders loads for replay files.
func FmtLoads(ls []Load) []string {
	out := make([]string, len(ls))
	for i, l := range ls {
		out[i] = fmt.Sprintf("%d %s path=%q %s respReach=%v respHas=%v", i+1, short(l.Link.String()), l.Path, l.Source, l.RespReach, l.RespHas)
	}
	return out
}

// FmtVisits renders visits.
func FmtVisits(vs []Visit) []string {
	out := make([]string, len(vs))
	for i, v := range vs {
		out[i] = v.String()
	}
	return out
}

// IsPrefixPath reports whether a is a (segment-wise) prefix of b.
func IsPrefixPath(a, b string) bool {
	if a == "" {
		return true
	}
	return b == a || strings.HasPrefix(b, a+"/")
}

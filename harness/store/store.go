// Package store is an instrumented in-memory block store exposed as an
// ipld.LinkSystem (TrustedStorage, like go-graphsync's storeutil): ordered
// read/commit logs, an online hash monitor on commit, gates that hold the
// k-th read, and fault/panic injection.
package store

import (
	"bytes"
	"fmt"
	"io"
	"sync"
	"sync/atomic"

	"github.com/ipfs/go-cid"
	"github.com/ipld/go-ipld-prime"
	_ "github.com/ipld/go-ipld-prime/codec/raw" // raw leaves must decode
	"github.com/ipld/go-ipld-prime/datamodel"
	"github.com/ipld/go-ipld-prime/linking"
	cidlink "github.com/ipld/go-ipld-prime/linking/cid"

	"verif/harness/mon"
)

// Read is one read event.
type Read struct {
	Seq  int64
	Link cid.Cid
	Path string
	Hit  bool
	N    int // 0-based read index
}

// Commit is one commit event.
type Commit struct {
	Seq    int64
	Link   cid.Cid
	Size   int
	HashOK bool
	N      int
}

// Store is the instrumented block store.
type Store struct {
	Name string
	Log  *mon.Log

	mu      sync.Mutex
	blocks  map[string][]byte
	reads   []Read
	commits []Commit
	held    int64

	// BeforeRead is called for every read before it is served (n = 0-based index);
	// it may block (gate), return an error (injected fault) or panic (C22).
	BeforeRead func(n int, lnk cid.Cid, path string) error
	// BeforeCommit is called for every commit before it is applied.
	BeforeCommit func(n int, lnk cid.Cid) error
	// BeforeWriteOpen is called when a write is opened.
	BeforeWriteOpen func(n int) error
	nWriteOpen      int
}

// New creates an empty store.
func New(name string, log *mon.Log) *Store {
	return &Store{Name: name, Log: log, blocks: map[string][]byte{}}
}

// Put adds a block without logging (initial contents).
func (s *Store) Put(c cid.Cid, data []byte) {
	s.mu.Lock()
	s.blocks[c.KeyString()] = data
	s.mu.Unlock()
}

// Has reports whether the store holds a block.
func (s *Store) Has(c cid.Cid) bool {
	s.mu.Lock()
	defer s.mu.Unlock()
	_, ok := s.blocks[c.KeyString()]
	return ok
}

// Get returns a block.
func (s *Store) Get(c cid.Cid) ([]byte, bool) {
	s.mu.Lock()
	defer s.mu.Unlock()
	b, ok := s.blocks[c.KeyString()]
	return b, ok
}

// Len returns the number of blocks.
func (s *Store) Len() int {
	s.mu.Lock()
	defer s.mu.Unlock()
	return len(s.blocks)
}

// Reads returns a snapshot of the read log.
func (s *Store) Reads() []Read {
	s.mu.Lock()
	defer s.mu.Unlock()
	return append([]Read(nil), s.reads...)
}

// Commits returns a snapshot of the commit log.
func (s *Store) Commits() []Commit {
	s.mu.Lock()
	defer s.mu.Unlock()
	return append([]Commit(nil), s.commits...)
}

// HeldAdd adjusts the number of goroutines a scenario deliberately holds inside a gate.
func (s *Store) HeldAdd(d int64) { atomic.AddInt64(&s.held, d) }

// Held returns how many goroutines are deliberately held inside this store's gates.
func (s *Store) Held() int64 { return atomic.LoadInt64(&s.held) }

// LinkSystem returns the link system backed by this store.
func (s *Store) LinkSystem() ipld.LinkSystem {
	lsys := cidlink.DefaultLinkSystem()
	lsys.TrustedStorage = true
	lsys.StorageReadOpener = func(lctx linking.LinkContext, lnk datamodel.Link) (io.Reader, error) {
		c := lnk.(cidlink.Link).Cid
		s.mu.Lock()
		n := len(s.reads)
		s.reads = append(s.reads, Read{N: n, Link: c, Path: lctx.LinkPath.String()})
		br := s.BeforeRead
		s.mu.Unlock()
		if br != nil {
			if err := br(n, c, lctx.LinkPath.String()); err != nil {
				s.mu.Lock()
				s.reads[n].Seq = s.Log.Add("read", s.Name, "#%d %s path=%q injected-error=%v", n, c, lctx.LinkPath.String(), err)
				s.mu.Unlock()
				return nil, err
			}
		}
		s.mu.Lock()
		data, ok := s.blocks[c.KeyString()]
		s.reads[n].Hit = ok
		s.mu.Unlock()
		seq := s.Log.Add("read", s.Name, "#%d %s path=%q hit=%v", n, c, lctx.LinkPath.String(), ok)
		s.mu.Lock()
		s.reads[n].Seq = seq
		s.mu.Unlock()
		if !ok {
			return nil, fmt.Errorf("store %s: block %s not found", s.Name, c)
		}
		return bytes.NewBuffer(append([]byte(nil), data...)), nil
	}
	lsys.StorageWriteOpener = func(lctx linking.LinkContext) (io.Writer, linking.BlockWriteCommitter, error) {
		s.mu.Lock()
		nw := s.nWriteOpen
		s.nWriteOpen++
		bw := s.BeforeWriteOpen
		s.mu.Unlock()
		if bw != nil {
			if err := bw(nw); err != nil {
				return nil, nil, err
			}
		}
		var buf bytes.Buffer
		return &buf, func(lnk datamodel.Link) error {
			c := lnk.(cidlink.Link).Cid
			s.mu.Lock()
			n := len(s.commits)
			bc := s.BeforeCommit
			s.mu.Unlock()
			if bc != nil {
				if err := bc(n, c); err != nil {
					return err
				}
			}
			data := append([]byte(nil), buf.Bytes()...)
			sum, err := c.Prefix().Sum(data)
			ok := err == nil && sum.Equals(c)
			seq := s.Log.Add("commit", s.Name, "#%d %s size=%d hash_ok=%v", n, c, len(data), ok)
			s.mu.Lock()
			s.commits = append(s.commits, Commit{Seq: seq, Link: c, Size: len(data), HashOK: ok, N: len(s.commits)})
			s.blocks[c.KeyString()] = data
			s.mu.Unlock()
			return nil
		}, nil
	}
	return lsys
}

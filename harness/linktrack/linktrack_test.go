// Package linktrack monitors the responder's per-peer block de-duplication
// (C19) through responseassembler.ResponseStream with a capturing message
// handler: the send decision is "the block is in the message that was built".
package linktrack

import (
	"context"
	"fmt"
	"math/rand"
	"testing"

	blocks "github.com/ipfs/go-block-format"
	"github.com/ipfs/go-cid"
	"github.com/ipld/go-ipld-prime"
	cidlink "github.com/ipld/go-ipld-prime/linking/cid"
	"github.com/libp2p/go-libp2p/core/peer"
	mh "github.com/multiformats/go-multihash"

	"github.com/ipfs/go-graphsync"
	"github.com/ipfs/go-graphsync/linktracker"
	"github.com/ipfs/go-graphsync/messagequeue"
	"github.com/ipfs/go-graphsync/notifications"
	"github.com/ipfs/go-graphsync/responsemanager/responseassembler"

	"verif/harness/rt"
)

type capture struct {
	topic    messagequeue.Topic
	lastBlks map[cid.Cid]bool
	lastMeta []string
	lastCode map[graphsync.RequestID]graphsync.ResponseStatusCode
}

func (c *capture) AllocateAndBuildMessage(p peer.ID, size uint64, fn func(*messagequeue.Builder)) {
	b := messagequeue.NewBuilder(context.Background(), c.topic)
	c.topic++
	fn(b)
	msg, _ := b.Build()
	c.lastBlks = map[cid.Cid]bool{}
	for _, blk := range msg.Blocks() {
		c.lastBlks[blk.Cid()] = true
	}
	c.lastCode = msg.ResponseCodes()
}

type nullSub struct{}

func (nullSub) OnNext(notifications.Topic, notifications.Event) {}
func (nullSub) OnClose(notifications.Topic)                     {}

var (
	linkData [][]byte
	links    []ipld.Link
)

func init() {
	for i := 0; i < 8; i++ {
		d := []byte(fmt.Sprintf("verif-block-%d", i))
		h, _ := mh.Sum(d, mh.SHA2_256, -1)
		c := cid.NewCidV1(cid.Raw, h)
		linkData = append(linkData, d)
		links = append(links, cidlink.Link{Cid: c})
		_ = blocks.NewBlock
	}
}

const (
	oStart = iota
	oTraverse
	oFinish
)

// sop is one scripted operation.
type sop struct {
	K       int
	R       int   // request index
	Key     int   // oStart: 0 = default scope, >0 = dedup key number
	Ignore  []int // oStart: ignore list (link indices)
	Skip    int64 // oStart: do-not-send-first-blocks
	L       int   // oTraverse: link index
	Present bool  // oTraverse
	How     int   // oFinish: 0 FinishRequest, 1 FinishWithError, 2 ClearRequest
}

func (o sop) String() string {
	switch o.K {
	case oStart:
		return fmt.Sprintf("start(r%d,key=%d,ignore=%v,skip=%d)", o.R, o.Key, o.Ignore, o.Skip)
	case oTraverse:
		return fmt.Sprintf("traverse(r%d,L%d,present=%v)", o.R, o.L, o.Present)
	}
	return fmt.Sprintf("finish(r%d,how=%d)", o.R, o.How)
}

func fmtOps(ops []sop) []string {
	out := make([]string, len(ops))
	for i, o := range ops {
		out[i] = o.String()
	}
	return out
}

// mreq is the monitor's view of one request.
type mreq struct {
	key      int
	started  bool
	finished bool
	withBlk  map[int]int // link -> traversals with block by this request
	ignored  map[int]bool
	missing  bool
	skip     int64
	index    int64
}

// runScript executes a script (invalid ops are skipped and not counted) and
// monitors C19. Returns a failure description or "".
func runScript(ops []sop, nreq int) (sig, what string, executed int) {
	ctx := context.Background()
	cap := &capture{}
	ra := responseassembler.New(ctx, cap)
	p := peer.ID("verif-linktrack-peer")
	reqs := make([]*mreq, 0, nreq)
	ids := make([]graphsync.RequestID, 0, nreq)
	streams := make([]responseassembler.ResponseStream, 0, nreq)
	newReq := func() int {
		id := graphsync.NewRequestID()
		ids = append(ids, id)
		reqs = append(reqs, &mreq{withBlk: map[int]int{}, ignored: map[int]bool{}})
		streams = append(streams, ra.NewStream(ctx, p, id, nullSub{}))
		return len(reqs) - 1
	}
	for i := 0; i < nreq; i++ {
		newReq()
	}
	// inUse reports whether an unfinished request of the scope has traversed the link with a block
	// (traversedOnly) or, additionally, has it on its ignore list.
	inUse := func(key, l int, traversedOnly bool) bool {
		for _, q := range reqs {
			if !q.started || q.finished || q.key != key {
				continue
			}
			if q.withBlk[l] > 0 || (!traversedOnly && q.ignored[l]) {
				return true
			}
		}
		return false
	}
	traverse := func(r int, l int, present bool) (string, string) {
		q := reqs[r]
		usedStrict := inUse(q.key, l, true)
		usedLoose := inUse(q.key, l, false)
		q.index++
		var data []byte
		if present {
			data = linkData[l]
		}
		var bd graphsync.BlockData
		_ = streams[r].Transaction(func(rb responseassembler.ResponseBuilder) error {
			bd = rb.SendResponse(links[l], data)
			return nil
		})
		sent := cap.lastBlks[links[l].(cidlink.Link).Cid]
		if sent != (bd.BlockSizeOnWire() > 0) {
			return "C19/decision-vs-message", fmt.Sprintf("r%d L%d: block data reports on-wire size %d but block in built message = %v", r, l, bd.BlockSizeOnWire(), sent)
		}
		if bd.Index() != q.index {
			return "C19/index", fmt.Sprintf("r%d L%d: reported block index %d, expected %d", r, l, bd.Index(), q.index)
		}
		if sent && !present {
			return "C19/sent-missing", fmt.Sprintf("r%d L%d: block sent although it is missing", r, l)
		}
		if sent && usedStrict {
			return "C19/sent-twice-while-in-use", fmt.Sprintf("r%d L%d (scope %d): block transmitted again while an unfinished request that traversed it is in progress", r, l, q.key)
		}
		if present && !sent && !usedLoose && q.index > q.skip {
			return "C19/not-sent-although-unused", fmt.Sprintf("r%d L%d (scope %d, index %d, skip %d): block withheld although no unfinished request of the scope traversed or ignore-listed it", r, l, q.key, q.index, q.skip)
		}
		if present {
			q.withBlk[l]++
		} else {
			q.missing = true
		}
		return "", ""
	}
	finish := func(r int, how int) (string, string) {
		q := reqs[r]
		switch how {
		case 0:
			var st graphsync.ResponseStatusCode
			_ = streams[r].Transaction(func(rb responseassembler.ResponseBuilder) error {
				st = rb.FinishRequest()
				return nil
			})
			want := graphsync.RequestCompletedFull
			if q.missing {
				want = graphsync.RequestCompletedPartial
			}
			if st != want || cap.lastCode[ids[r]] != want {
				return "C19/completeness", fmt.Sprintf("r%d finished with %s (message: %s), expected %s (missing link encountered: %v)", r, st, cap.lastCode[ids[r]], want, q.missing)
			}
		case 1:
			_ = streams[r].Transaction(func(rb responseassembler.ResponseBuilder) error {
				rb.FinishWithError(graphsync.RequestFailedUnknown)
				return nil
			})
		default:
			streams[r].ClearRequest()
		}
		q.finished = true
		return "", ""
	}
	for _, o := range ops {
		if o.R >= len(reqs) {
			continue
		}
		q := reqs[o.R]
		switch o.K {
		case oStart:
			if q.started {
				continue
			}
			q.started = true
			q.key = o.Key
			q.skip = o.Skip
			if o.Key > 0 {
				streams[o.R].DedupKey(fmt.Sprintf("key-%d", o.Key))
			}
			if len(o.Ignore) > 0 {
				ls := make([]ipld.Link, 0, len(o.Ignore))
				for _, l := range o.Ignore {
					ls = append(ls, links[l])
					q.ignored[l] = true
				}
				streams[o.R].IgnoreBlocks(ls)
			}
			if o.Skip != 0 {
				streams[o.R].SkipFirstBlocks(o.Skip)
			}
		case oTraverse:
			if !q.started || q.finished {
				continue
			}
			if s, w := traverse(o.R, o.L, o.Present); s != "" {
				return s, w, executed
			}
		case oFinish:
			if !q.started || q.finished {
				continue
			}
			if s, w := finish(o.R, o.How); s != "" {
				return s, w, executed
			}
		}
		executed++
	}
	// finish everything still running, then: no tracking state, and later requests are sent every block again
	usedKeys := map[int]bool{}
	for r, q := range reqs {
		if q.started {
			usedKeys[q.key] = true
		}
		if q.started && !q.finished {
			if s, w := finish(r, r%3); s != "" {
				return s, w, executed
			}
		}
	}
	dk, alt, ctrs, defEmpty, ok := ra.VerifTrackerSizes(p)
	if ok && (dk != 0 || alt != 0 || ctrs != 0 || !defEmpty) {
		return "C19/tracking-state-left", fmt.Sprintf("after all requests finished: dedupKeys=%d altTrackers=%d per-request counters=%d defaultTrackerEmpty=%v", dk, alt, ctrs, defEmpty), executed
	}
	for key := range usedKeys {
		r := newReq()
		reqs[r].started = true
		reqs[r].key = key
		if key > 0 {
			streams[r].DedupKey(fmt.Sprintf("key-%d", key))
		}
		for l := 0; l < 3; l++ {
			if s, w := traverse(r, l, true); s != "" {
				return s, "later request: " + w, executed
			}
		}
		if s, w := finish(r, 0); s != "" {
			return s, w, executed
		}
	}
	dk, alt, ctrs, defEmpty, ok = ra.VerifTrackerSizes(p)
	if ok && (dk != 0 || alt != 0 || ctrs != 0 || !defEmpty) {
		return "C19/tracking-state-left", fmt.Sprintf("after the later requests finished: dedupKeys=%d altTrackers=%d per-request counters=%d defaultTrackerEmpty=%v", dk, alt, ctrs, defEmpty), executed
	}
	return "", "", executed
}

func randomScript(r *rand.Rand) ([]sop, int) {
	nreq := 1 + r.Intn(4)
	nlinks := 4 + r.Intn(3)
	nkeys := 1 + r.Intn(3)
	n := 5 + r.Intn(40)
	var ops []sop
	for i := 0; i < nreq; i++ {
		if r.Intn(2) == 0 {
			ops = append(ops, startOp(r, i, nkeys, nlinks))
		}
	}
	for len(ops) < n {
		x := r.Intn(100)
		q := r.Intn(nreq)
		switch {
		case x < 12:
			ops = append(ops, startOp(r, q, nkeys, nlinks))
		case x < 90:
			ops = append(ops, sop{K: oTraverse, R: q, L: r.Intn(nlinks), Present: r.Intn(5) != 0})
		default:
			ops = append(ops, sop{K: oFinish, R: q, How: r.Intn(3)})
		}
	}
	return ops, nreq
}

func startOp(r *rand.Rand, q, nkeys, nlinks int) sop {
	o := sop{K: oStart, R: q, Key: r.Intn(nkeys)}
	if r.Intn(3) == 0 {
		for l := 0; l < nlinks; l++ {
			if r.Intn(3) == 0 {
				o.Ignore = append(o.Ignore, l)
			}
		}
	}
	if r.Intn(3) == 0 {
		o.Skip = int64(r.Intn(5))
	}
	return o
}

// TestRandom: random interleaved scripts, 1-4 requests, 1-3 scopes, 4-6 links.
func TestRandom(t *testing.T) {
	p := rt.Load()
	rep := rt.NewReporter(p)
	defer rep.Flush(false)
	var executed int64
	for _, c := range p.Cases() {
		r := p.RNG("random", c)
		ops, nreq := randomScript(r)
		if c%64 == 0 {
			rep.Journal("case %d", c)
		}
		sig, what, ex := runScript(ops, nreq)
		executed += int64(ex)
		rep.Eval()
		if ex > 3 {
			rep.Nontrivial(rt.Key(fmt.Sprint(ops)))
		}
		if sig != "" {
			rep.Violation(c, sig, what, map[string]any{"requests": nreq, "ops": fmtOps(ops)})
		}
		if c%5000 == 0 {
			rep.Sample(map[string]any{"kind": "random-script", "requests": nreq, "ops": fmtOps(ops)})
		}
	}
	rep.Count("operations_executed", executed)
	rep.Flush(true)
}

// TestExhaustive: 2 requests x 2 links, all op sequences up to length L for every
// start configuration (scopes, ignore list, skip count). case = (config, first op).
func TestExhaustive(t *testing.T) {
	p := rt.Load()
	rep := rt.NewReporter(p)
	defer rep.Flush(false)
	L := p.Pick(4, 6)
	var alpha []sop
	for q := 0; q < 2; q++ {
		for l := 0; l < 2; l++ {
			alpha = append(alpha, sop{K: oTraverse, R: q, L: l, Present: true}, sop{K: oTraverse, R: q, L: l, Present: false})
		}
		alpha = append(alpha, sop{K: oFinish, R: q, How: 0})
	}
	n := len(alpha)
	type cfg struct {
		k0, k1 int
		ign0   []int
		skip1  int64
	}
	var cfgs []cfg
	for _, ks := range [][2]int{{0, 0}, {1, 1}, {1, 2}, {0, 1}} {
		for _, ig := range [][]int{nil, {0}} {
			for _, sk := range []int64{0, 1} {
				cfgs = append(cfgs, cfg{ks[0], ks[1], ig, sk})
			}
		}
	}
	var scripts, executed int64
	for _, c := range p.Cases() {
		cf := cfgs[(c/n)%len(cfgs)]
		first := alpha[c%n]
		rep.Journal("case %d cfg=%+v first=%v", c, cf, first)
		head := []sop{{K: oStart, R: 0, Key: cf.k0, Ignore: cf.ign0}, {K: oStart, R: 1, Key: cf.k1, Skip: cf.skip1}, first}
		idx := make([]int, L-1)
		for {
			ops := append([]sop(nil), head...)
			for _, v := range idx {
				ops = append(ops, alpha[v])
			}
			sig, what, ex := runScript(ops, 2)
			scripts++
			executed += int64(ex)
			if sig != "" {
				rep.Violation(c, sig, what, map[string]any{"requests": 2, "ops": fmtOps(ops)})
				if rep.NumViolations() > 10 {
					rep.Flush(true)
					return
				}
			}
			k := len(idx) - 1
			for k >= 0 {
				idx[k]++
				if idx[k] < n {
					break
				}
				idx[k] = 0
				k--
			}
			if k < 0 {
				break
			}
		}
		rep.Eval()
		rep.Nontrivial(rt.Key("exh", c))
		if c%41 == 0 {
			rep.Sample(map[string]any{"kind": "exhaustive-prefix", "config": fmt.Sprintf("%+v", cf), "first": first.String(), "length": L, "alphabet": n})
		}
	}
	rep.Count("scripts_executed", scripts)
	rep.Count("operations_executed", executed)
	rep.SetExhaustive(true)
	rep.Flush(true)
}

// TestDirect drives linktracker.LinkTracker directly against a multiset model.
func TestDirect(t *testing.T) {
	p := rt.Load()
	rep := rt.NewReporter(p)
	defer rep.Flush(false)
	for _, c := range p.Cases() {
		r := p.RNG("direct", c)
		lt := linktracker.New()
		nreq := 1 + r.Intn(4)
		ids := make([]graphsync.RequestID, nreq)
		for i := range ids {
			ids[i] = graphsync.NewRequestID()
		}
		with := make([]map[int]int, nreq)
		miss := make([]map[int]bool, nreq)
		for i := range with {
			with[i] = map[int]int{}
			miss[i] = map[int]bool{}
		}
		var trace []string
		fail := ""
		for i := 0; i < 5+r.Intn(40) && fail == ""; i++ {
			q := r.Intn(nreq)
			l := r.Intn(5)
			if r.Intn(8) == 0 {
				full := lt.FinishRequest(ids[q])
				trace = append(trace, fmt.Sprintf("finish(r%d)=%v", q, full))
				if full != (len(miss[q]) == 0) {
					fail = fmt.Sprintf("FinishRequest(r%d) = %v but missing links recorded: %v", q, full, miss[q])
				}
				with[q] = map[int]int{}
				miss[q] = map[int]bool{}
			} else {
				present := r.Intn(4) != 0
				lt.RecordLinkTraversal(ids[q], links[l], present)
				trace = append(trace, fmt.Sprintf("record(r%d,L%d,%v)", q, l, present))
				if present {
					with[q][l]++
				} else {
					miss[q][l] = true
				}
			}
			total := 0
			for l := 0; l < 5; l++ {
				want := 0
				for q := 0; q < nreq; q++ {
					want += with[q][l]
				}
				total += want
				if got := lt.BlockRefCount(links[l]); got != want && fail == "" {
					fail = fmt.Sprintf("BlockRefCount(L%d) = %d, in-progress traversals with block = %d", l, got, want)
				}
			}
			anyMiss := false
			for q := 0; q < nreq; q++ {
				for l := 0; l < 5; l++ {
					if lt.IsKnownMissingLink(ids[q], links[l]) != miss[q][l] && fail == "" {
						fail = fmt.Sprintf("IsKnownMissingLink(r%d,L%d) disagrees with the model (%v)", q, l, miss[q][l])
					}
				}
				anyMiss = anyMiss || len(miss[q]) > 0
			}
			if lt.Empty() != (total == 0 && !anyMiss) && fail == "" {
				fail = fmt.Sprintf("Empty() = %v but in-progress traversals = %d, missing recorded = %v", lt.Empty(), total, anyMiss)
			}
		}
		rep.Eval()
		rep.Nontrivial(rt.Key("direct", fmt.Sprint(trace)))
		if fail != "" {
			rep.Violation(c, "C19/linktracker-model", fail, map[string]any{"trace": trace})
		}
	}
	rep.Flush(true)
}

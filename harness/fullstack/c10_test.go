package fullstack

import (
	"context"
	"errors"
	"fmt"
	"strings"
	"sync/atomic"
	"testing"
	"time"

	"github.com/ipfs/go-cid"
	"github.com/ipld/go-ipld-prime/node/basicnode"
	"github.com/libp2p/go-libp2p/core/peer"

	"github.com/ipfs/go-graphsync"
	gsimpl "github.com/ipfs/go-graphsync/impl"
	gsmsg "github.com/ipfs/go-graphsync/message"

	"verif/harness/fab"
	"verif/harness/gen"
	"verif/harness/ref"
	"verif/harness/rt"
	"verif/harness/store"
)

// TestC10: messages from one peer cannot alter a response served to another.
func TestC10(t *testing.T) {
	p := rt.Load()
	rep := rt.NewReporter(p)
	defer rep.Flush(false)
	for _, ci := range p.Cases() {
		c := GenCase(p, "c10", ci, "")
		r := p.RNG("c10x", ci)
		rr := ref.SingleStore(c.DAG.Root, c.Sel, HasFn(c.DAG, c.RespHas), 0)
		if rr.Err != nil || rr.RootMissing || len(rr.Loads) < 3 {
			continue
		}
		point := []string{"queued", "running", "paused", "after-message", "completing-send"}[r.Intn(5)]
		attack := []string{"cancel", "update-plain", "update-unpause", "update-bad", "new-same-root", "new-other-root"}[r.Intn(6)]
		other := gen.GenDAG(r, gen.DagOpts{MinBlocks: 3, MaxBlocks: 8, Salt: fmt.Sprintf("c10o-%d", ci), Chain: true}) // a chain: its full traversal stays small
		rep.Journal("case %d point=%s attack=%s loads=%d", ci, point, attack, len(rr.Loads))
		w := NewWorld()
		pert := NewPerturber(c.PertSeed, 1)
		ss := store.New("S.store", w.Log)
		Fill(ss, c.DAG, c.RespHas)
		for k, b := range other.Blocks {
			ss.Put(k, b)
		}
		var opts []gsimpl.Option
		workers := uint64(6)
		if point == "queued" {
			opts = append(opts, gsimpl.MaxInProgressIncomingRequests(1))
			workers = 1
		}
		S := w.AddGS("S", ss, NodeOpts{Options: opts, Workers: workers})
		A := w.AddRaw("A")
		X := w.AddRaw("X")
		H := w.AddRaw("H") // holder of the single worker in the "queued" scenario
		w.Fab.Link(S.ID, A.ID).Delay = pert.LinkDelay()
		S.OnUpdate = func(pp peer.ID, rq graphsync.RequestData, u graphsync.RequestData, a graphsync.RequestUpdatedHookActions) {
			if d, ok := u.Extension(verifExt); ok && d != nil {
				if s, err := d.AsString(); err == nil {
					switch s {
					case "unpause":
						a.UnpauseResponse()
					case "bad":
						a.TerminateWithError(errors.New("verif: update rejected"))
					default:
						a.SendExtensionData(graphsync.ExtensionData{Name: verifExt, Data: basicnode.NewString("ack")})
					}
				}
			}
		}
		id := graphsync.NewRequestID()
		strike := func() {
			var m gsmsg.GraphSyncRequest
			switch attack {
			case "cancel":
				m = gsmsg.NewCancelRequest(id)
			case "update-plain":
				m = gsmsg.NewUpdateRequest(id, graphsync.ExtensionData{Name: verifExt, Data: basicnode.NewString("hello")})
			case "update-unpause":
				m = gsmsg.NewUpdateRequest(id, graphsync.ExtensionData{Name: verifExt, Data: basicnode.NewString("unpause")})
			case "update-bad":
				m = gsmsg.NewUpdateRequest(id, graphsync.ExtensionData{Name: verifExt, Data: basicnode.NewString("bad")})
			case "new-same-root":
				m = NewReq(id, c.DAG.Root, c.Sel)
			case "new-other-root":
				m = NewReq(id, other.Root, gen.AllSelector())
			}
			_ = RawSend(X, S.ID, m)
		}
		inc := ""
		var struckFlag int32
		release := make(chan struct{})
		released := false
		rel := func() {
			if !released {
				released = true
				close(release)
			}
		}
		entered := make(chan struct{}, 4)
		gateAt := -1
		ss.BeforeRead = func(n int, lnk cid.Cid, path string) error {
			if n == gateAt {
				ss.HeldAdd(1)
				entered <- struct{}{}
				<-release
				ss.HeldAdd(-1)
			}
			return nil
		}
		pausedAt := int64(-1)
		switch point {
		case "queued":
			gateAt = 0
			hid := graphsync.NewRequestID()
			_ = RawSend(H, S.ID, NewReq(hid, other.Root, gen.AllSelector()))
			<-entered
			_ = RawSend(A, S.ID, NewReq(id, c.DAG.Root, c.Sel))
			if ok, why := w.Quiesce(); !ok {
				inc = why
			}
			strike()
			atomic.StoreInt32(&struckFlag, 1)
			if ok, why := w.Quiesce(); !ok {
				inc = why
			}
			rel()
		case "running":
			gateAt = 1 + r.Intn(len(rr.Loads)-1)
			_ = RawSend(A, S.ID, NewReq(id, c.DAG.Root, c.Sel))
			<-entered
			strike()
			atomic.StoreInt32(&struckFlag, 1)
			if ok, why := w.Quiesce(); !ok {
				inc = why
			}
			rel()
		case "paused":
			pausedAt = int64(1 + r.Intn(len(rr.Loads)))
			pauseIdx := pausedAt // the hook reads its own copy
			S.OnOutgoingBlock = func(pp peer.ID, rq graphsync.RequestData, b graphsync.BlockData, a graphsync.OutgoingBlockHookActions) {
				if pp == A.ID && rq.ID() == id && b.Index() == pauseIdx {
					a.PauseResponse()
				}
			}
			_ = RawSend(A, S.ID, NewReq(id, c.DAG.Root, c.Sel))
			if ok, why := w.Quiesce(); !ok {
				inc = why
			}
			// is the response really paused? (the hook only fires for blocks with data)
			st := S.Impl.PeerState(A.ID).IncomingState.RequestStates[id]
			if v := ViewOf(A, S.ID, id); v.HasTerm || st != graphsync.Paused {
				pausedAt = -1
			}
			strike()
			atomic.StoreInt32(&struckFlag, 1)
			if ok, why := w.Quiesce(); !ok {
				inc = why
			}
			// resume whenever the response is found paused at sustained quiescence (the pause may only take
			// effect after the first quiescent point above if that one fell into a lull of a long traversal)
			for round := 0; round < 6 && inc == ""; round++ {
				got, why := AwaitTerminal(w, A, S.ID, id)
				if why != "" {
					inc = why
					break
				}
				if got || S.Impl.PeerState(A.ID).IncomingState.RequestStates[id] != graphsync.Paused {
					break
				}
				ctx, cancel := context.WithTimeout(context.Background(), 20*time.Second)
				_ = S.GS.Unpause(ctx, id)
				cancel()
			}
		case "completing-send":
			// the connection to A accepts nothing: the traversal finishes, everything including the final
			// status is queued, the response waits for its last message to go out
			w.Fab.Link(S.ID, A.ID).Stall()
			_ = RawSend(A, S.ID, NewReq(id, c.DAG.Root, c.Sel))
			if ok, why := w.Quiesce(); !ok {
				inc = why
			}
			if st := S.Impl.PeerState(A.ID).IncomingState.RequestStates[id]; st != graphsync.CompletingSend {
				pausedAt = -2 // state not reached (recorded in the detail)
			}
			strike()
			atomic.StoreInt32(&struckFlag, 1)
			if ok, why := w.Quiesce(); !ok {
				inc = why
			}
			w.Fab.Link(S.ID, A.ID).Unstall()
		case "after-message":
			j := 1 + r.Intn(4)
			n := 0
			w.Fab.Link(S.ID, A.ID).AfterDeliver = func(*fab.WireMsg) {
				n++
				if n == j && atomic.CompareAndSwapInt32(&struckFlag, 0, 1) {
					strike()
				}
			}
			_ = RawSend(A, S.ID, NewReq(id, c.DAG.Root, c.Sel))
		}
		if inc == "" {
			_, inc = AwaitTerminal(w, A, S.ID, id)
		}
		if inc == "" {
			if ok, why := w.Quiesce(); !ok {
				inc = why
			}
		}
		rel()
		rep.Eval()
		detail := func() map[string]any {
			d := c.Describe()
			d["point"], d["attack"], d["paused_at_block"], d["gate_at_read"] = point, attack, pausedAt, gateAt
			d["responder_loads"] = len(rr.Loads)
			d["event_log_tail"] = w.Log.Tail(60)
			return d
		}
		if inc != "" {
			rep.Inconclusive("case %d: %s", ci, inc)
		} else {
			e := &respExpect{Loads: rr.Loads}
			v := ViewOf(A, S.ID, id)
			sig, what := checkView(v, e, false, true)
			if sig != "" {
				rep.Violation(ci, "C10/victim-response-changed", fmt.Sprintf("peer X sent %s carrying peer A's request id while A's response was %s: A's response differs from the responder's own traversal (%s)", attack, point, what), detail())
			} else {
				// an update answered towards the victim would also be a change: no extension data caused by X may reach A
				for _, ex := range v.Exts {
					for _, n := range ex {
						if n == verifExt {
							sig = "C10/victim-received-attackers-update-answer"
							what = "peer A received extension data produced by peer X's update"
						}
					}
				}
				if sig != "" {
					rep.Violation(ci, sig, what, detail())
				}
			}
			comp, canc := 0, 0
			var compStatus graphsync.ResponseStatusCode
			for _, ev := range S.Events() {
				if ev.ID != id || ev.Peer != A.ID {
					continue
				}
				switch ev.Kind {
				case "completed":
					comp++
					compStatus = ev.Status
				case "cancelled":
					canc++
				}
			}
			if sig == "" && (comp != 1 || canc != 0 || compStatus != v.Terminal) {
				rep.Violation(ci, "C10/victim-notifications-changed", fmt.Sprintf("outcome notifications for A's response: completed=%d (status %s, wire %s) cancelled=%d after X sent %s while %s", comp, compStatus, v.Terminal, canc, attack, point), detail())
			}
			// once A's response has ended the responder holds nothing for it any more: no entry under A in the
			// reported request states, and the connection protection taken for A's request is released
			if sig == "" {
				left := ""
				_, unstable := w.ConfirmStable(func() string {
					left = ""
					if st, ok := S.Impl.PeerState(A.ID).IncomingState.RequestStates[id]; ok {
						left = fmt.Sprintf("A's request is still listed in state %s", st)
					}
					for tag, n := range S.Net.CM.Outstanding() {
						if n != 0 && strings.HasPrefix(tag, string(A.ID)+"|") && strings.HasSuffix(tag, id.String()) {
							left = fmt.Sprintf("the connection protection for A's request is still held (%d)", n)
						}
					}
					return left
				}, time.Second)
				if unstable == "" && left != "" {
					rep.Violation(ci, "C10/victim-response-state-left-behind", fmt.Sprintf("after X sent %s while A's response was %s and A's response had ended: %s", attack, point, left), detail())
				}
			}
			if atomic.LoadInt32(&struckFlag) == 1 {
				rep.Nontrivial(rt.Key(c.DAG.Root, SelJSON(c.Sel), point, attack, ci))
				rep.SetAdd("point_x_attack", point+"/"+attack)
			}
		}
		if ci%97 == 0 {
			rep.Sample(detail())
		}
		pert.Stop()
		w.Close()
	}
	rep.Flush(true)
}

package fullstack

import (
	"fmt"
	"io"
	"sync/atomic"
	"testing"

	"github.com/ipfs/go-cid"
	"github.com/ipld/go-ipld-prime"
	"github.com/ipld/go-ipld-prime/codec"
	"github.com/ipld/go-ipld-prime/datamodel"
	"github.com/ipld/go-ipld-prime/linking"
	cidlink "github.com/ipld/go-ipld-prime/linking/cid"
	"github.com/libp2p/go-libp2p/core/peer"

	"github.com/ipfs/go-graphsync"

	"verif/harness/gen"
	"verif/harness/ref"
	"verif/harness/rt"
	"verif/harness/store"
)

// boom panics with one of the shapes real crashes have: a string, an error value, a runtime error.
func boom(kind int, where string) {
	switch kind {
	case 1:
		panic(fmt.Errorf("verif: panic (error value) in %s", where))
	case 2:
		var m map[string]int
		m[where] = 1 // runtime error: assignment to entry in nil map
	}
	panic("verif: panic in " + where)
}

var panicKinds = []string{"string", "error-value", "runtime-error"}

var panicSites = []string{"decoder", "reifier", "chooser", "storage-read", "storage-write-open", "storage-commit"}

// panicLinkSystem wraps a store's link system with panic injection in the decoder chooser / reifier.
func panicLinkSystem(st *store.Store, site string, k int64, pkind int, armed *int32, fired *int32, isVictim func(cid.Cid) bool) ipld.LinkSystem {
	lsys := st.LinkSystem()
	var n int64
	switch site {
	case "decoder":
		inner := lsys.DecoderChooser
		lsys.DecoderChooser = func(l datamodel.Link) (codec.Decoder, error) {
			dec, err := inner(l)
			if err != nil {
				return nil, err
			}
			victim := isVictim(l.(cidlink.Link).Cid)
			return func(na datamodel.NodeAssembler, r io.Reader) error {
				if atomic.LoadInt32(armed) == 1 && victim && atomic.AddInt64(&n, 1) == k {
					atomic.StoreInt32(fired, 1)
					boom(pkind, "decoder")
				}
				return dec(na, r)
			}, nil
		}
	case "reifier":
		lsys.NodeReifier = func(lc linking.LinkContext, nd datamodel.Node, ls *linking.LinkSystem) (datamodel.Node, error) {
			// the block being reified belongs to the victim iff the link that led to it does (the root has no link node)
			victim := false
			if lc.LinkNode != nil {
				if l, err := lc.LinkNode.AsLink(); err == nil {
					victim = isVictim(l.(cidlink.Link).Cid)
				}
			}
			if atomic.LoadInt32(armed) == 1 && victim && atomic.AddInt64(&n, 1) == k {
				atomic.StoreInt32(fired, 1)
				boom(pkind, "node reifier")
			}
			return nd, nil
		}
	}
	return lsys
}

// TestC22: a panic in per-request code fails only that request.
func TestC22(t *testing.T) {
	p := rt.Load()
	rep := rt.NewReporter(p)
	defer rep.Flush(false)
	storageOnly := p.Sub == "storage"
	for _, ci := range p.Cases() {
		r := p.RNG("c22", ci)
		site := panicSites[r.Intn(3)]
		if storageOnly {
			site = panicSites[3+r.Intn(3)]
		}
		side := []string{"requestor", "responder"}[r.Intn(2)]
		if site == "storage-write-open" || site == "storage-commit" {
			side = "requestor" // only the requestor writes
		}
		// victim DAG and bystander DAG
		d := gen.GenDAG(r, gen.DagOpts{MinBlocks: 4, MaxBlocks: 4 + r.Intn(12), Salt: fmt.Sprintf("c22v-%d", ci)})
		by := gen.GenDAG(r, gen.DagOpts{MinBlocks: 3, MaxBlocks: 3 + r.Intn(10), Salt: fmt.Sprintf("c22b-%d", ci)})
		sel := gen.AllSelector()
		allV := func(k cid.Cid) ([]byte, bool) { b, ok := d.Blocks[k]; return b, ok }
		allB := func(k cid.Cid) ([]byte, bool) { b, ok := by.Blocks[k]; return b, ok }
		fullV := ref.TwoStore(d.Root, sel, allV, allV, 0)
		fullB := ref.TwoStore(by.Root, sel, allB, allB, 0)
		if fullV.Err != nil || fullB.Err != nil || len(fullV.Loads) < 2 {
			continue
		}
		k := int64(1 + r.Intn(len(fullV.Loads)))
		if r.Intn(3) == 0 {
			k = 1 // the root: its chooser / load runs before the traversal proper
		}
		pkind := r.Intn(len(panicKinds))
		// write the case down before running it: a dead child identifies its killer
		rep.Journal("case %d site=%s side=%s k=%d victim_loads=%d panic=%s", ci, site, side, k, len(fullV.Loads), panicKinds[pkind])
		rep.Flush(false)

		w := NewWorld()
		pert := NewPerturber(r.Int63(), 1)
		sa := store.New("A.store", w.Log)
		sb := store.New("B.store", w.Log)
		for kk, b := range d.Blocks {
			sb.Put(kk, b)
		}
		for kk, b := range by.Blocks {
			sb.Put(kk, b)
		}
		var armed, fired int32
		target := sa
		if side == "responder" {
			target = sb
		}
		// the victim's loads are identified by its links (the bystander DAG is disjoint)
		isVictim := func(c cid.Cid) bool { _, ok := d.Blocks[c]; return ok }
		var nv int64
		switch site {
		case "storage-read":
			target.BeforeRead = func(n int, lnk cid.Cid, path string) error {
				if atomic.LoadInt32(&armed) == 1 && isVictim(lnk) && atomic.AddInt64(&nv, 1) == k {
					atomic.StoreInt32(&fired, 1)
					boom(pkind, "StorageReadOpener")
				}
				return nil
			}
		case "storage-write-open":
			target.BeforeWriteOpen = func(n int) error {
				if atomic.LoadInt32(&armed) == 1 && atomic.AddInt64(&nv, 1) == k {
					atomic.StoreInt32(&fired, 1)
					boom(pkind, "StorageWriteOpener")
				}
				return nil
			}
		case "storage-commit":
			target.BeforeCommit = func(n int, lnk cid.Cid) error {
				if atomic.LoadInt32(&armed) == 1 && isVictim(lnk) && atomic.AddInt64(&nv, 1) == k {
					atomic.StoreInt32(&fired, 1)
					boom(pkind, "block write committer")
				}
				return nil
			}
		}
		// nodes with (possibly) wrapped link systems: the decoder / reifier panics only for victim blocks via k counting on the chosen side
		A := w.addGSWithLinkSystem("A", sa, func(st *store.Store) ipld.LinkSystem {
			if side == "requestor" && (site == "decoder" || site == "reifier") {
				return panicLinkSystem(st, site, k, pkind, &armed, &fired, isVictim)
			}
			return st.LinkSystem()
		})
		B := w.addGSWithLinkSystem("B", sb, func(st *store.Store) ipld.LinkSystem {
			if side == "responder" && (site == "decoder" || site == "reifier") {
				return panicLinkSystem(st, site, k, pkind, &armed, &fired, isVictim)
			}
			return st.LinkSystem()
		})
		victimID := graphsync.NewRequestID()
		if site == "chooser" {
			var nc int64
			ch := func(lnk datamodel.Link, lc linking.LinkContext) (datamodel.NodePrototype, error) {
				if atomic.AddInt64(&nc, 1) == k {
					atomic.StoreInt32(&fired, 1)
					boom(pkind, "prototype chooser")
				}
				return refChooser(lnk, lc)
			}
			if side == "requestor" {
				A.OnOutgoingReq = func(pp peer.ID, rq graphsync.RequestData, a graphsync.OutgoingRequestHookActions) {
					if rq.ID() == victimID {
						a.UseLinkTargetNodePrototypeChooser(ch)
					}
				}
			} else {
				B.OnRequest = func(pp peer.ID, rq graphsync.RequestData, a graphsync.IncomingRequestHookActions) {
					a.ValidateRequest()
					if rq.ID() == victimID {
						a.UseLinkTargetNodePrototypeChooser(ch)
					}
				}
			}
		}
		// the bystander first (healthy, finishes or overlaps), then the victim with the panic armed
		overlap := r.Intn(2) == 0
		if site == "storage-write-open" {
			overlap = false // a write-open carries no link: it cannot be attributed to a request while two run
		}
		var byReq *Req
		if overlap {
			byReq = w.Request(A, B.ID, by.Root, sel)
		}
		if site != "chooser" {
			atomic.StoreInt32(&armed, 1)
		}
		vReq := w.RequestWithID(victimID, A, B.ID, d.Root, sel)
		hungV, inc := AwaitDone(w, vReq)
		atomic.StoreInt32(&armed, 0)
		if !overlap {
			byReq = w.Request(A, B.ID, by.Root, sel)
		}
		hungB, inc2 := AwaitDone(w, byReq)
		if inc == "" {
			inc = inc2
		}
		if inc == "" {
			if ok, why := w.Quiesce(); !ok {
				inc = why
			}
		}
		rep.Eval()
		detail := func() map[string]any {
			_, errs, _, _ := vReq.Snapshot()
			var es []string
			for _, e := range errs {
				es = append(es, fmt.Sprintf("%T: %.160v", e.Err, e.Err))
			}
			return map[string]any{"case": ci, "site": site, "side": side, "k": k, "victim_loads": len(fullV.Loads), "overlap_with_bystander": overlap, "panic_value": panicKinds[pkind], "panic_fired": atomic.LoadInt32(&fired) == 1,
				"victim_errors": es, "requestor_panic_callbacks": A.Panics(), "responder_panic_callbacks": B.Panics(), "event_log_tail": w.Log.Tail(50)}
		}
		switch {
		case inc != "":
			rep.Inconclusive("case %d: %s", ci, inc)
		case hungV || hungB:
			rep.Violation(ci, "C22/request-never-finished/"+site, fmt.Sprintf("a request is still open at quiescence after a panic in the %s %s (victim hung=%v, bystander hung=%v)", side, site, hungV, hungB), detail())
		default:
			if atomic.LoadInt32(&fired) == 1 {
				_, errs, _, _ := vReq.Snapshot()
				failed := len(errs) > 0
				if side == "responder" && !failed {
					// the responder fails the request with a terminal failure status; a requestor whose own
					// traversal had already completed (panic while handling the last block, after its data had
					// left) legitimately ends without an error
					for _, m := range w.Fab.Wire() {
						if m.From != B.ID {
							continue
						}
						for _, rs := range m.Responses {
							if rs.ID == victimID && rs.Status.IsTerminal() && rs.Status != graphsync.RequestCompletedFull && rs.Status != graphsync.RequestCompletedPartial {
								failed = true
							}
						}
					}
				}
				if !failed {
					rep.Violation(ci, "C22/no-error-for-panicking-request/"+site, fmt.Sprintf("the panic in the %s %s at block %d produced no error for the request", side, site, k), detail())
				}
				cbs := A.Panics()
				if side == "responder" {
					cbs = B.Panics()
				}
				if len(cbs) == 0 {
					rep.Violation(ci, "C22/panic-callback-not-invoked/"+site, fmt.Sprintf("the configured panic callback of the %s was not invoked", side), detail())
				}
				rep.Nontrivial(rt.Key(site, side, k, len(fullV.Loads), overlap))
				rep.SetAdd("site_x_side", site+"/"+side)
			}
			// the bystander must be untouched
			expB := ref.Outcome{Visits: fullB.Visits, Loads: fullB.Loads, RemoteObtained: map[cid.Cid]bool{}}
			if mm := CompareOutcome("C22", byReq, expB, sa); mm != nil {
				rep.Violation(ci, "C22/bystander-affected/"+site, "a healthy concurrent request was affected: "+mm.What, detail())
			}
		}
		if ci%47 == 0 {
			dd := detail()
			delete(dd, "event_log_tail")
			rep.Sample(dd)
		}
		pert.Stop()
		w.Close()
	}
	rep.Flush(true)
}

var _ = cidlink.Link{}

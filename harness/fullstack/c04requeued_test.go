package fullstack

import (
	"context"
	"fmt"
	"sync/atomic"
	"testing"
	"time"

	"github.com/ipfs/go-cid"
	"github.com/libp2p/go-libp2p/core/peer"

	"github.com/ipfs/go-graphsync"
	gsimpl "github.com/ipfs/go-graphsync/impl"
	gsmsg "github.com/ipfs/go-graphsync/message"

	"verif/harness/gen"
	"verif/harness/rt"
	"verif/harness/store"
)

// TestC04Requeued: the third non-running state of an outgoing request - paused, then unpaused, and
// still waiting for a worker (queued again, with its traversal already built). A cancel (context or
// API) or a failure status from the responder in that state must close both channels and report the
// right error, like in any other state.
func TestC04Requeued(t *testing.T) {
	p := rt.Load()
	rep := rt.NewReporter(p)
	defer rep.Flush(false)
	failCodes := []graphsync.ResponseStatusCode{graphsync.RequestFailedBusy, graphsync.RequestFailedContentNotFound, graphsync.RequestFailedLegal, graphsync.RequestFailedUnknown, graphsync.RequestRejected, graphsync.RequestCancelled}
	for _, ci := range p.Cases() {
		r := p.RNG("c04q", ci)
		trigger := []string{"ctx-cancel", "api-cancel", "failure-status"}[r.Intn(3)]
		code := failCodes[r.Intn(len(failCodes))]
		n := 5 + r.Intn(8)
		pauseAt := int64(1 + r.Intn(3))
		d := gen.FlatDAG(r, n, 60+r.Intn(200), fmt.Sprintf("c04q-%d", ci))
		filler := gen.FlatDAG(r, 3, 50, fmt.Sprintf("c04q-f-%d", ci))
		rep.Journal("case %d trigger=%s code=%s pauseAt=%d", ci, trigger, code, pauseAt)
		w := NewWorld()
		sa := store.New("A.store", w.Log)
		A := w.AddGS("A", sa, NodeOpts{Options: []gsimpl.Option{gsimpl.MaxInProgressOutgoingRequests(1)}, Workers: 1})
		A.Workers = 0
		R := w.AddRaw("R") // scripted responder for the victim
		F := w.AddRaw("F") // never answers: its request keeps the single worker busy
		id := graphsync.NewRequestID()
		var pausedFlag int32
		A.OnIncomingBlock = func(pp peer.ID, rs graphsync.ResponseData, b graphsync.BlockData, a graphsync.IncomingBlockHookActions) {
			if rs.RequestID() == id && b.Index() == pauseAt && atomic.CompareAndSwapInt32(&pausedFlag, 0, 1) {
				a.PauseRequest()
			}
		}
		req := w.RequestWithID(id, A, R.ID, d.Root, gen.AllSelector())
		inc := ""
		q := func(where string) {
			if inc == "" {
				if ok, why := w.Quiesce(); !ok {
					inc = where + ": " + why
				}
			}
		}
		q("request sent")
		// the responder delivers the root and the first leaves: the hook pauses the request
		var md []gsmsg.GraphSyncLinkMetadatum
		md = append(md, gsmsg.GraphSyncLinkMetadatum{Link: d.Root, Action: graphsync.LinkActionPresent})
		data := map[cid.Cid][]byte{d.Root: d.Blocks[d.Root]}
		for _, k := range d.Order[:int(pauseAt)+1] {
			md = append(md, gsmsg.GraphSyncLinkMetadatum{Link: k, Action: graphsync.LinkActionPresent})
			data[k] = d.Blocks[k]
		}
		_ = RawSendResponse(R, A.ID, []gsmsg.GraphSyncResponse{gsmsg.NewResponse(id, graphsync.PartialResponse, md)}, data)
		q("first message")
		state := func() string {
			if st, ok := A.Impl.PeerState(R.ID).OutgoingState.RequestStates[id]; ok {
				return st.String()
			}
			return "none"
		}
		ctx, cancel := context.WithTimeout(context.Background(), 60*time.Second)
		reached := false
		if inc == "" && state() == "paused" {
			// occupy the only worker, then unpause the victim: it is queued again and stays so
			fr := w.Request(A, F.ID, filler.Root, gen.AllSelector())
			_ = fr
			q("filler started")
			if !w.Call(func() { _ = A.GS.Unpause(ctx, id) }) {
				inc = "Unpause did not return"
			}
			q("unpaused")
			reached = inc == "" && state() == "queued"
		}
		cancelReturned := true
		if reached {
			switch trigger {
			case "ctx-cancel":
				req.Cancel()
			case "api-cancel":
				cancelReturned = w.Call(func() { _ = A.GS.Cancel(ctx, id) })
			case "failure-status":
				_ = RawSendResponse(R, A.ID, []gsmsg.GraphSyncResponse{gsmsg.NewResponse(id, code, nil)}, nil)
			}
			q("trigger")
		}
		hung := false
		if reached && inc == "" {
			switch AwaitDoneOrIdle(w, req, 2*time.Second) {
			case "idle":
				hung = true
			case "inconclusive":
				inc = "request neither finished nor quiescent within the watchdog"
			}
		}
		cancel()
		rep.Eval()
		prog, errs, _, _ := req.Snapshot()
		var es []string
		for _, e := range errs {
			es = append(es, fmt.Sprintf("%T: %.160v", e.Err, e.Err))
		}
		detail := map[string]any{"case": ci, "trigger": trigger, "failure_code": code.String(), "pause_at_block": pauseAt, "state_before_trigger": map[bool]string{true: "queued again after unpause", false: "not reached"}[reached],
			"delivered_nodes": len(prog), "errors": es, "cancel_call_returned": cancelReturned, "event_log_tail": w.Log.Tail(40)}
		switch {
		case inc != "":
			rep.Inconclusive("case %d: %s", ci, inc)
		case !reached:
			// the state could not be constructed (e.g. the pause did not take place): nothing to decide
		case hung:
			rep.Violation(ci, "C04/channels-not-closed", fmt.Sprintf("%s while the request was queued again after an unpause: the consumer keeps reading, the system is quiescent, a result channel is still open", trigger), detail)
		case !cancelReturned:
			rep.Violation(ci, "C04/cancel-call-blocked", "the Cancel API call did not return for a request that was queued again after an unpause", detail)
		default:
			ok := false
			for _, e := range errs {
				switch trigger {
				case "ctx-cancel", "api-cancel":
					if _, is := e.Err.(graphsync.RequestClientCancelledErr); is {
						ok = true
					}
				default:
					if e.Err != nil && e.Err.Error() == code.AsError().Error() {
						ok = true
					}
				}
			}
			if !ok {
				rep.Violation(ci, "C04/wrong-terminal-error", fmt.Sprintf("%s while queued again after an unpause: expected error not reported (got %v)", trigger, es), detail)
			}
			if trigger != "failure-status" {
				sent := false
				for _, m := range w.Fab.Wire() {
					if m.From == A.ID && m.To == R.ID {
						for _, rq := range m.Requests {
							if rq.ID == id && rq.Type == graphsync.RequestTypeCancel {
								sent = true
							}
						}
					}
				}
				if !sent {
					rep.Violation(ci, "C04/no-cancel-sent", "caller cancelled a request that was queued again after an unpause but no cancel was sent to the responder", detail)
				}
			}
			rep.Nontrivial(rt.Key("c04q", trigger, code, pauseAt, n))
			rep.Count("requeued_requests_triggered", 1)
			rep.SetAdd("requeued_triggers", trigger)
		}
		if ci%67 == 0 {
			delete(detail, "event_log_tail")
			rep.Sample(detail)
		}
		w.Close()
	}
	rep.Flush(true)
}

package fullstack

import (
	"errors"
	"fmt"
	"sync"
	"testing"

	"github.com/ipfs/go-cid"
	"github.com/ipld/go-ipld-prime/node/basicnode"
	"github.com/libp2p/go-libp2p/core/peer"

	"github.com/ipfs/go-graphsync"
	gsmsg "github.com/ipfs/go-graphsync/message"

	"verif/harness/fab"
	"verif/harness/gen"
	"verif/harness/rt"
	"verif/harness/store"
)

const verifExt = graphsync.ExtensionName("verif/ext")

// TestC09: responses from other peers cannot affect a request.
func TestC09(t *testing.T) {
	p := rt.Load()
	rep := rt.NewReporter(p)
	defer rep.Flush(false)
	for _, ci := range p.Cases() {
		var c *Case
		for k := 0; ; k++ {
			c = GenCase(p, fmt.Sprintf("c09-%d", k), ci, "")
			if !samePathTwice(c) {
				break
			}
		}
		r := p.RNG("c09x", ci)
		// the genuine responder holds everything (keeps the case out of the C02 known-finding classes)
		all := map[cid.Cid]bool{}
		for k := range c.DAG.Blocks {
			all[k] = true
		}
		c = MakeCase(ci, c.DAG, c.Sel, c.SelKind, c.ReqHas, all)
		c.PertSeed = r.Int63()
		foreign := gen.GenDAG(r, gen.DagOpts{MinBlocks: 3, MaxBlocks: 8, Salt: fmt.Sprintf("c09f-%d", ci)})
		rep.Journal("case %d blocks=%d req=%s", ci, len(c.DAG.Blocks), c.ReqClass)
		w := NewWorld()
		pert := NewPerturber(c.PertSeed, 1)
		sa := store.New("A.store", w.Log)
		sb := store.New("B.store", w.Log)
		Fill(sa, c.DAG, c.ReqHas)
		Fill(sb, c.DAG, all)
		A := w.AddGS("A", sa, NodeOpts{})
		B := w.AddGS("B", sb, NodeOpts{})
		T := w.AddRaw("T")
		// the requestor's response hook behaves like a real consumer of an extension
		A.OnResponse = func(pp peer.ID, rs graphsync.ResponseData, a graphsync.IncomingResponseHookActions) {
			if d, ok := rs.Extension(verifExt); ok && d != nil {
				if s, err := d.AsString(); err == nil {
					switch s {
					case "bad":
						a.TerminateWithError(errors.New("verif: extension rejected"))
					case "update":
						a.UpdateRequestWithExtensions(graphsync.ExtensionData{Name: verifExt, Data: basicnode.NewString("ack")})
					}
				}
			}
		}
		var mu sync.Mutex
		injected := 0
		kinds := map[string]int{}
		reqID := graphsync.NewRequestID()
		inject := func() {
			mu.Lock()
			defer mu.Unlock()
			n := 1 + r.Intn(3)
			for i := 0; i < n; i++ {
				st := allStatuses[r.Intn(len(allStatuses))]
				var md []gsmsg.GraphSyncLinkMetadatum
				blks := map[cid.Cid][]byte{}
				for j := 0; j < r.Intn(6); j++ {
					var k cid.Cid
					if r.Intn(2) == 0 && len(c.FullOrder) > 0 {
						k = c.FullOrder[r.Intn(len(c.FullOrder))]
						if r.Intn(2) == 0 {
							blks[k] = c.DAG.Blocks[k]
						}
					} else {
						k = foreign.Order[r.Intn(len(foreign.Order))]
						if r.Intn(2) == 0 {
							blks[k] = foreign.Blocks[k]
						}
					}
					md = append(md, gsmsg.GraphSyncLinkMetadatum{Link: k, Action: allActions[r.Intn(4)]})
				}
				var exts []graphsync.ExtensionData
				kind := "plain"
				switch r.Intn(4) {
				case 0:
					exts = append(exts, graphsync.ExtensionData{Name: verifExt, Data: basicnode.NewString("bad")})
					kind = "ext-that-makes-hook-fail"
				case 1:
					exts = append(exts, graphsync.ExtensionData{Name: verifExt, Data: basicnode.NewString("update")})
					kind = "ext-that-makes-hook-update"
				}
				kinds[kind+"/"+st.String()]++
				_ = RawSendResponse(T, A.ID, []gsmsg.GraphSyncResponse{gsmsg.NewResponse(reqID, st, md, exts...)}, blks)
				injected++
			}
		}
		// injection positions: after the j-th genuine response message was delivered, and once right after the request started
		positions := map[int]bool{}
		for i := 0; i < 1+r.Intn(3); i++ {
			positions[r.Intn(6)] = true
		}
		l := w.Fab.Link(B.ID, A.ID)
		l.Delay = pert.LinkDelay()
		nDelivered := 0
		l.AfterDeliver = func(*fab.WireMsg) {
			nDelivered++
			if positions[nDelivered] {
				inject()
			}
		}
		req := w.RequestWithID(reqID, A, B.ID, c.DAG.Root, c.Sel)
		if positions[0] {
			inject()
		}
		hung, inc := AwaitDone(w, req)
		if inc == "" && !hung {
			if ok, why := w.Quiesce(); !ok {
				inc = why
			}
		}
		rep.Eval()
		detail := func() map[string]any {
			d := c.Detail()
			d["injected_messages"] = injected
			d["injected_kinds"] = kinds
			d["event_log_tail"] = w.Log.Tail(60)
			return d
		}
		switch {
		case inc != "":
			rep.Inconclusive("case %d: %s", ci, inc)
		case hung:
			rep.Violation(ci, "C09/request-never-finished", "system quiescent but the victim request is still open", detail())
		default:
			// delivered while live?
			live := 0
			for _, m := range w.Fab.Wire() {
				if m.From == T.ID && m.Delivered != 0 {
					_, _, pc, ec := req.Snapshot()
					if pc == 0 || ec == 0 || m.Delivered < pc || m.Delivered < ec {
						live++
					}
				}
			}
			for _, e := range A.Events() {
				if e.Peer == T.ID && e.ID == req.ID && (e.Kind == "response-hook" || e.Kind == "block-hook") {
					rep.Violation(ci, "C09/hook-saw-third-party-response", fmt.Sprintf("requestor %s invoked for the victim request with a response from a third peer (status %s)", e.Kind, e.Status), detail())
					break
				}
			}
			for _, m := range w.Fab.Wire() {
				if m.From == A.ID && m.To == T.ID {
					rep.Violation(ci, "C09/message-sent-to-third-party", "requestor sent a message to the third peer: "+fab.Brief(m), detail())
					break
				}
			}
			if mm := CompareOutcome("C09", req, c.Exp, sa); mm != nil {
				rep.Violation(ci, "C09/outcome-changed", "outcome differs from the reference (third-party messages had an effect): "+mm.What, detail())
			}
			if live > 0 {
				rep.Nontrivial(rt.Key(c.DAG.Root, SelJSON(c.Sel), SortedCids(c.ReqHas), ci))
				rep.Count("third_party_messages_delivered_while_live", int64(live))
			}
			rep.Count("third_party_messages_injected", int64(injected))
			for k := range kinds {
				rep.SetAdd("injected_kinds", k)
			}
		}
		if ci%97 == 0 {
			s := c.Describe()
			s["injected_kinds"] = kinds
			rep.Sample(s)
		}
		pert.Stop()
		w.Close()
	}
	rep.Flush(true)
}

package fullstack

import (
	"context"
	"errors"
	"fmt"
	"sync"
	"sync/atomic"
	"testing"
	"time"

	"github.com/ipfs/go-cid"
	"github.com/ipld/go-ipld-prime/node/basicnode"
	"github.com/libp2p/go-libp2p/core/peer"

	"github.com/ipfs/go-graphsync"
	gsmsg "github.com/ipfs/go-graphsync/message"

	"verif/harness/fab"
	"verif/harness/gen"
	"verif/harness/mon"
	"verif/harness/rt"
	"verif/harness/store"
)

const verifExt = graphsync.ExtensionName("verif/ext")
const thirdPartyMarker = graphsync.ExtensionName("verif/third-party")

// TestC09: responses from other peers cannot affect a request.
func TestC09(t *testing.T) {
	p := rt.Load()
	rep := rt.NewReporter(p)
	defer rep.Flush(false)
	for _, ci := range p.Cases() {
		var c *Case
		for k := 0; ; k++ {
			c = GenCase(p, fmt.Sprintf("c09-%d", k), ci, "")
			if !samePathTwice(c) {
				break
			}
		}
		r := p.RNG("c09x", ci)
		// the genuine responder holds everything (keeps the case out of the C02 known-finding classes)
		all := map[cid.Cid]bool{}
		for k := range c.DAG.Blocks {
			all[k] = true
		}
		c = MakeCase(ci, c.DAG, c.Sel, c.SelKind, c.ReqHas, all)
		c.PertSeed = r.Int63()
		foreign := gen.GenDAG(r, gen.DagOpts{MinBlocks: 3, MaxBlocks: 8, Salt: fmt.Sprintf("c09f-%d", ci)})
		rep.Journal("case %d blocks=%d req=%s", ci, len(c.DAG.Blocks), c.ReqClass)
		w := NewWorld()
		pert := NewPerturber(c.PertSeed, 1)
		sa := store.New("A.store", w.Log)
		sb := store.New("B.store", w.Log)
		Fill(sa, c.DAG, c.ReqHas)
		Fill(sb, c.DAG, all)
		other := gen.GenDAG(p.RNG("c09other", ci), gen.DagOpts{MinBlocks: 3, MaxBlocks: 7, Salt: fmt.Sprintf("c09o-%d", ci), Chain: true})
		for k, bb := range other.Blocks {
			sb.Put(k, bb)
		}
		A := w.AddGS("A", sa, NodeOpts{})
		B := w.AddGS("B", sb, NodeOpts{})
		T := w.AddRaw("T")
		// the requestor's response hook behaves like a real consumer of an extension
		var markerSeen int32
		type sight struct {
			id   graphsync.RequestID
			at   int64
			kind int32
		}
		var sgmu sync.Mutex
		var sights []sight
		sighting := func(kind int32, id graphsync.RequestID) {
			atomic.StoreInt32(&markerSeen, kind)
			sgmu.Lock()
			sights = append(sights, sight{id, mon.Tick(), kind})
			sgmu.Unlock()
		}
		A.OnIncomingBlock = func(pp peer.ID, rs graphsync.ResponseData, b graphsync.BlockData, a graphsync.IncomingBlockHookActions) {
			if _, ok := rs.Extension(thirdPartyMarker); ok {
				sighting(1, rs.RequestID())
			}
		}
		A.OnResponse = func(pp peer.ID, rs graphsync.ResponseData, a graphsync.IncomingResponseHookActions) {
			if _, ok := rs.Extension(thirdPartyMarker); ok {
				sighting(2, rs.RequestID())
			}
			if d, ok := rs.Extension(verifExt); ok && d != nil {
				if s, err := d.AsString(); err == nil {
					switch s {
					case "bad":
						a.TerminateWithError(errors.New("verif: extension rejected"))
					case "update":
						a.UpdateRequestWithExtensions(graphsync.ExtensionData{Name: verifExt, Data: basicnode.NewString("ack")})
					}
				}
			}
		}
		var mu sync.Mutex
		injected := 0
		kinds := map[string]int{}
		reqID := graphsync.NewRequestID()
		reqID2 := graphsync.NewRequestID()
		dual := p.RNG("c09dual", ci).Intn(3) == 0 // a second request to the same responder runs alongside
		inject := func() {
			mu.Lock()
			defer mu.Unlock()
			n := 1 + r.Intn(3)
			for i := 0; i < n; i++ {
				st := allStatuses[r.Intn(len(allStatuses))]
				var md []gsmsg.GraphSyncLinkMetadatum
				blks := map[cid.Cid][]byte{}
				for j := 0; j < r.Intn(6); j++ {
					var k cid.Cid
					if r.Intn(2) == 0 && len(c.FullOrder) > 0 {
						k = c.FullOrder[r.Intn(len(c.FullOrder))]
						if r.Intn(2) == 0 {
							blks[k] = c.DAG.Blocks[k]
						}
					} else {
						k = foreign.Order[r.Intn(len(foreign.Order))]
						if r.Intn(2) == 0 {
							blks[k] = foreign.Blocks[k]
						}
					}
					md = append(md, gsmsg.GraphSyncLinkMetadatum{Link: k, Action: allActions[r.Intn(4)]})
				}
				exts := []graphsync.ExtensionData{{Name: thirdPartyMarker, Data: basicnode.NewString("from-third-party")}}
				kind := "plain"
				switch r.Intn(4) {
				case 0:
					exts = append(exts, graphsync.ExtensionData{Name: verifExt, Data: basicnode.NewString("bad")})
					kind = "ext-that-makes-hook-fail"
				case 1:
					exts = append(exts, graphsync.ExtensionData{Name: verifExt, Data: basicnode.NewString("update")})
					kind = "ext-that-makes-hook-update"
				}
				kinds[kind+"/"+st.String()]++
				resps := []gsmsg.GraphSyncResponse{gsmsg.NewResponse(reqID, st, md, exts...)}
				if dual && r.Intn(2) == 0 {
					// one message of the third peer carrying responses for both of the victim's requests
					second := gsmsg.NewResponse(reqID2, allStatuses[r.Intn(len(allStatuses))], md, exts...)
					if r.Intn(2) == 0 {
						resps = []gsmsg.GraphSyncResponse{second, resps[0]}
					} else {
						resps = append(resps, second)
					}
					kinds["two-requests-in-one-message"]++
				}
				_ = RawSendResponse(T, A.ID, resps, blks)
				injected++
			}
		}
		// injection positions: after the j-th genuine response message was delivered, and once right after the request started
		positions := map[int]bool{}
		for i := 0; i < 1+r.Intn(3); i++ {
			positions[r.Intn(6)] = true
		}
		l := w.Fab.Link(B.ID, A.ID)
		l.Delay = pert.LinkDelay()
		nDelivered := 0
		l.AfterDeliver = func(*fab.WireMsg) {
			nDelivered++
			if positions[nDelivered] {
				inject()
			}
		}
		req := w.RequestWithID(reqID, A, B.ID, c.DAG.Root, c.Sel)
		var reqB *Req
		if dual {
			reqB = w.RequestWithID(reqID2, A, B.ID, other.Root, gen.AllSelector())
		}
		if positions[0] {
			inject()
		}
		hung, inc := AwaitDone(w, req)
		if reqB != nil && inc == "" && !hung {
			hung, inc = AwaitDone(w, reqB)
		}
		if inc == "" && !hung {
			if ok, why := w.Quiesce(); !ok {
				inc = why
			}
		}
		rep.Eval()
		detail := func() map[string]any {
			d := c.Detail()
			d["injected_messages"] = injected
			d["injected_kinds"] = kinds
			d["event_log_tail"] = w.Log.Tail(60)
			return d
		}
		switch {
		case inc != "":
			rep.Inconclusive("case %d: %s", ci, inc)
		case hung:
			rep.Violation(ci, "C09/request-never-finished", "system quiescent but the victim request is still open", detail())
		default:
			// delivered while live?
			live := 0
			for _, m := range w.Fab.Wire() {
				if m.From == T.ID && m.Delivered != 0 {
					_, _, pc, ec := req.Snapshot()
					if pc == 0 || ec == 0 || m.Delivered < pc || m.Delivered < ec {
						live++
					}
				}
			}
			// recorded finding: once the requestor has finished the request (both channels closed) it no
			// longer knows which peer the id belonged to, and a response carrying the id reaches the
			// response hooks whoever sends it. Everything that happened while the request was live must hold.
			// recorded finding: once the requestor has retired a request it no longer knows which peer the
			// id belonged to, and a response carrying the id reaches the response hooks whoever sends it.
			// Everything that happens while the request concerned is in progress must hold.
			aev := A.Events()
			afterFinish := func(id graphsync.RequestID, seq int64) string {
				// in progress = from the outgoing-request hook (the request manager has registered it) to
				// its retirement (reported by a hook in the request manager)
				start := int64(0)
				for _, e := range aev {
					if e.Kind == "outgoing-request-hook" && e.ID == id {
						start = e.Seq
						break
					}
				}
				at := w.RetiredAt(id)
				if start == 0 || seq < start || (at != 0 && seq > at) {
					return "C09/third-party-response-after-request-finished"
				}
				return ""
			}
			for _, e := range A.Events() {
				if e.Peer == T.ID && (e.ID == req.ID || e.ID == reqID2) && (e.Kind == "response-hook" || e.Kind == "block-hook") {
					sig := afterFinish(e.ID, e.Seq)
					if sig == "" {
						sig = "C09/hook-saw-third-party-response"
					}
					rep.Violation(ci, sig, fmt.Sprintf("requestor %s invoked for the victim request with a response from a third peer (status %s)", e.Kind, e.Status), detail())
					if sig == "C09/hook-saw-third-party-response" {
						break
					}
				}
			}
			sgmu.Lock()
			for _, sg := range sights {
				sig := afterFinish(sg.id, sg.at)
				if sig == "" || sg.kind == 1 {
					sig = "C09/hook-saw-third-party-response-data"
				}
				rep.Violation(ci, sig, fmt.Sprintf("a requestor %s hook was handed response data (status/extensions) that came from the third peer", map[int32]string{1: "block", 2: "response"}[sg.kind]), detail())
				if sig == "C09/hook-saw-third-party-response-data" {
					break
				}
			}
			sgmu.Unlock()
			for _, m := range w.Fab.Wire() {
				if m.From == A.ID && m.To == T.ID {
					sig := "C09/third-party-response-after-request-finished"
					for _, rq := range m.Requests {
						if afterFinish(rq.ID, m.Seq) == "" {
							sig = "C09/message-sent-to-third-party"
						}
					}
					rep.Violation(ci, sig, "requestor sent a message to the third peer: "+fab.Brief(m), detail())
					if sig == "C09/message-sent-to-third-party" {
						break
					}
				}
			}
			if mm := CompareOutcome("C09", req, c.Exp, sa); mm != nil {
				rep.Violation(ci, "C09/outcome-changed", "outcome differs from the reference (third-party messages had an effect): "+mm.What, detail())
			}
			if live > 0 {
				rep.Nontrivial(rt.Key(c.DAG.Root, SelJSON(c.Sel), SortedCids(c.ReqHas), ci))
				rep.Count("third_party_messages_delivered_while_live", int64(live))
			}
			rep.Count("third_party_messages_injected", int64(injected))
			for k := range kinds {
				rep.SetAdd("injected_kinds", k)
			}
		}
		if ci%97 == 0 {
			s := c.Describe()
			s["injected_kinds"] = kinds
			rep.Sample(s)
		}
		pert.Stop()
		w.Close()
	}
	rep.Flush(true)
}

// TestC09Reuse: a caller-chosen request id is used for a request to peer B1 that is paused and
// cancelled, then re-used for a request to peer B2. Responses that B1 (now a third party for that
// id) still sends must not reach hooks or affect the new request.
func TestC09Reuse(t *testing.T) {
	p := rt.Load()
	rep := rt.NewReporter(p)
	defer rep.Flush(false)
	for _, ci := range p.Cases() {
		var c *Case
		for k := 0; ; k++ {
			c = GenCase(p, fmt.Sprintf("c09r-%d", k), ci, "")
			if !samePathTwice(c) && len(c.Full.Loads) > 3 {
				break
			}
		}
		r := p.RNG("c09rx", ci)
		all := map[cid.Cid]bool{}
		for k := range c.DAG.Blocks {
			all[k] = true
		}
		c = MakeCase(ci, c.DAG, c.Sel, c.SelKind, map[cid.Cid]bool{}, all)
		rep.Journal("case %d blocks=%d", ci, len(c.DAG.Blocks))
		w := NewWorld()
		pert := NewPerturber(r.Int63(), 1)
		sa := store.New("A.store", w.Log)
		A := w.AddGS("A", sa, NodeOpts{})
		sb1 := store.New("B1.store", w.Log)
		sb2 := store.New("B2.store", w.Log)
		Fill(sb1, c.DAG, all)
		Fill(sb2, c.DAG, all)
		B1 := w.AddGS("B1", sb1, NodeOpts{})
		B2 := w.AddGS("B2", sb2, NodeOpts{})
		id := graphsync.NewRequestID()
		var phase int32 // 0: first request (pause at block 1), 1: second request
		var markerSeen int32
		var smu sync.Mutex
		var sightings []int64 // logical times at which a hook saw the old peer's marker
		note := func() {
			smu.Lock()
			sightings = append(sightings, mon.Tick())
			smu.Unlock()
		}
		pausedCh := make(chan struct{}, 1)
		A.OnIncomingBlock = func(pp peer.ID, rs graphsync.ResponseData, b graphsync.BlockData, a graphsync.IncomingBlockHookActions) {
			if _, ok := rs.Extension(thirdPartyMarker); ok {
				atomic.StoreInt32(&markerSeen, 1)
				note()
			}
			if atomic.LoadInt32(&phase) == 0 && b.Index() == 1 {
				a.PauseRequest()
				select {
				case pausedCh <- struct{}{}:
				default:
				}
			}
		}
		A.OnResponse = func(pp peer.ID, rs graphsync.ResponseData, a graphsync.IncomingResponseHookActions) {
			if _, ok := rs.Extension(thirdPartyMarker); ok {
				atomic.StoreInt32(&markerSeen, 2)
				note()
				a.TerminateWithError(errors.New("verif: third-party response reached the response hook"))
			}
		}
		inc := ""
		req1 := w.RequestWithID(id, A, B1.ID, c.DAG.Root, c.Sel)
		select {
		case <-pausedCh:
		case <-req1.Done():
		case <-time.After(30 * time.Second):
			inc = "first request neither paused nor finished"
		}
		if ok, why := w.Quiesce(); !ok && inc == "" {
			inc = why
		}
		// cancel while paused (cancel API; the context stays alive), then re-use the id for B2
		ctx, cancel := context.WithTimeout(context.Background(), 30*time.Second)
		_ = A.GS.Cancel(ctx, id)
		cancel()
		select {
		case <-req1.Done():
		case <-time.After(30 * time.Second):
			if inc == "" {
				inc = "first request did not end after Cancel"
			}
		}
		if ok, why := w.Quiesce(); !ok && inc == "" {
			inc = why
		}
		atomic.StoreInt32(&phase, 1)
		nInject := 1 + r.Intn(3)
		l := w.Fab.Link(B2.ID, A.ID)
		l.Delay = pert.LinkDelay()
		injected := 0
		pos := 1 + r.Intn(3)
		nd := 0
		inject := func() {
			for i := 0; i < nInject; i++ {
				st := allStatuses[r.Intn(len(allStatuses))]
				_ = RawSendResponse(B1.Net, A.ID, []gsmsg.GraphSyncResponse{gsmsg.NewResponse(id, st, nil, graphsync.ExtensionData{Name: thirdPartyMarker, Data: basicnode.NewString("from-old-peer")})}, nil)
				injected++
			}
		}
		l.AfterDeliver = func(*fab.WireMsg) {
			nd++
			if nd == pos {
				inject()
			}
		}
		var req2 *Req
		hung := false
		if inc == "" {
			req2 = w.RequestWithID(id, A, B2.ID, c.DAG.Root, c.Sel)
			hung, inc = AwaitDone(w, req2)
			if inc == "" && !hung {
				if ok, why := w.Quiesce(); !ok {
					inc = why
				}
			}
		}
		rep.Eval()
		detail := func() map[string]any {
			d := c.Describe()
			d["injected_by_old_peer"] = injected
			d["event_log_tail"] = w.Log.Tail(60)
			return d
		}
		switch {
		case inc != "":
			rep.Inconclusive("case %d: %s", ci, inc)
		case hung:
			rep.Violation(ci, "C09/request-never-finished", "system quiescent but the re-issued request is still open", detail())
		default:
			if ms := atomic.LoadInt32(&markerSeen); ms != 0 {
				// recorded finding: while no request with the id is in progress (after the first request was
				// retired and before the second was issued, or after the second was retired) the requestor
				// cannot tell whose response it is. While the second request is in progress it must.
				rets := w.RetiredAll(id)
				sig := "C09/third-party-response-after-request-finished"
				smu.Lock()
				for _, at := range sightings {
					live := at > req2.Called
					if len(rets) >= 2 && at > rets[len(rets)-1] {
						live = false
					}
					if len(rets) < 2 && at > req2.Called {
						live = true
					}
					if live {
						sig = "C09/hook-saw-third-party-response-data"
					}
				}
				smu.Unlock()
				rep.Violation(ci, sig, "after the request id was re-used for another peer, a response from the old peer reached a requestor hook", detail())
			}
			// the second request starts with whatever the first one already stored
			exp := MakeCase(ci, c.DAG, c.Sel, c.SelKind, map[cid.Cid]bool{}, all).Exp
			_ = exp
			prog, errs, _, _ := req2.Snapshot()
			if len(prog) != len(c.Full.Visits) || len(errs) != 0 {
				rep.Violation(ci, "C09/outcome-changed", fmt.Sprintf("re-issued request delivered %d nodes (reference %d) and %d errors", len(prog), len(c.Full.Visits), len(errs)), detail())
			}
			if injected > 0 {
				rep.Nontrivial(rt.Key("reuse", c.DAG.Root, SelJSON(c.Sel), ci))
				rep.Count("old_peer_messages_injected", int64(injected))
			}
		}
		pert.Stop()
		w.Close()
	}
	rep.Flush(true)
}

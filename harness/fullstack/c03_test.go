package fullstack

import (
	"fmt"
	"math/rand"
	"sync/atomic"
	"testing"
	"time"

	"github.com/ipfs/go-cid"

	"github.com/libp2p/go-libp2p/core/peer"

	"github.com/ipfs/go-graphsync"
	"github.com/ipfs/go-graphsync/cidset"
	"github.com/ipfs/go-graphsync/dedupkey"
	"github.com/ipfs/go-graphsync/donotsendfirstblocks"
	gsmsg "github.com/ipfs/go-graphsync/message"

	"verif/harness/fab"
	"verif/harness/ref"
	"verif/harness/rt"
	"verif/harness/store"
)

// respExpect is reference model 2: what the responder must emit for one request.
type respExpect struct {
	Loads  []ref.Load // responder's own traversal: (link, present?)
	Skip   int64
	Ignore map[cid.Cid]bool
	// Already = links another unfinished request of the same scope has traversed with a block
	Already map[cid.Cid]bool
	// IgnoredByOther = links on the ignore list of another unfinished request of the same scope (never sent to anyone)
	IgnoredByOther map[cid.Cid]bool
}

// classify returns for occurrence i (1-based): must send / may send / must not send.
func (e *respExpect) classify() (must, may []bool) {
	must = make([]bool, len(e.Loads)+1)
	may = make([]bool, len(e.Loads)+1)
	firstOcc := map[cid.Cid]int{}
	for i, l := range e.Loads {
		idx := i + 1
		present := l.Source != ref.Missing
		if !present {
			continue
		}
		f, seen := firstOcc[l.Link]
		if !seen {
			firstOcc[l.Link] = idx
		}
		if int64(idx) <= e.Skip || e.Ignore[l.Link] || e.Already[l.Link] {
			continue
		}
		if !seen {
			must[idx] = true
		} else if int64(f) <= e.Skip {
			may[idx] = true // first occurrence fell into the skipped prefix: don't-care
		}
	}
	return
}

// checkView compares what a raw requestor received with the expectation. exact=false skips the must-send rule.
func checkView(v RawView, e *respExpect, rootMissing bool, exact bool) (sig, what string) {
	if !v.HasTerm {
		return "C03/no-terminal-status", "responder is quiescent but never sent a terminal status"
	}
	if len(v.Entries) != len(e.Loads) {
		return "C03/metadata-length", fmt.Sprintf("%d metadata entries received, responder's own traversal performs %d link loads", len(v.Entries), len(e.Loads))
	}
	anyMissing := false
	must, may := e.classify()
	for i, en := range v.Entries {
		l := e.Loads[i]
		present := l.Source != ref.Missing
		if en.Link != l.Link {
			return "C03/metadata-order", fmt.Sprintf("metadata entry #%d is %s, traversal order has %s (path %q)", i+1, en.Link, l.Link, l.Path)
		}
		wantAct := graphsync.LinkActionPresent
		if !present {
			wantAct = graphsync.LinkActionMissing
			anyMissing = true
		}
		if en.Action != wantAct {
			return "C03/metadata-action", fmt.Sprintf("metadata entry #%d (%s, path %q) is marked %s, expected %s", i+1, en.Link, l.Path, en.Action, wantAct)
		}
	}
	// blocks: per message
	for k, mi := range v.MsgIdx {
		allowed := map[cid.Cid]bool{}
		for i, en := range v.Entries {
			if en.Msg != mi {
				continue
			}
			idx := i + 1
			if must[idx] || may[idx] {
				allowed[en.Link] = true
			}
			if exact && must[idx] {
				if _, ok := v.Blocks[k][en.Link]; !ok {
					if e.IgnoredByOther[en.Link] {
						return "C03/other-requests-ignore-list-suppresses-block", fmt.Sprintf("block %s (occurrence #%d) was withheld only because another unfinished request of the same scope lists it in its do-not-send-cids", en.Link, idx)
					}
					return "C03/block-not-sent", fmt.Sprintf("block %s (occurrence #%d, skip %d) must accompany its metadata entry but is not in that message", en.Link, idx, e.Skip)
				}
			}
		}
		for c := range v.Blocks[k] {
			if !allowed[c] && k < len(v.OtherLinks) && v.OtherLinks[k][c] {
				continue // the message also carries another request's response that names this link: the block may be there for it
			}
			if !allowed[c] {
				return "C03/block-not-allowed", fmt.Sprintf("block %s is on the wire but the rule excludes it in this message (skip %d, ignore-listed %v, already sent in scope %v)", c, e.Skip, e.Ignore[c], e.Already[c])
			}
		}
	}
	want := graphsync.RequestCompletedFull
	if rootMissing {
		want = graphsync.RequestFailedContentNotFound
	} else if anyMissing {
		want = graphsync.RequestCompletedPartial
	}
	if v.Terminal != want {
		return "C03/final-status", fmt.Sprintf("final status %s, expected %s", v.Terminal, want)
	}
	if v.AfterTerminal > 0 {
		return "C03/response-after-terminal", fmt.Sprintf("%d further responses after the terminal status", v.AfterTerminal)
	}
	return "", ""
}

type c03ext struct {
	Skip    int64
	HasSkip bool
	Ignore  map[cid.Cid]bool
	HasCids bool
	Key     string
}

func (x c03ext) exts() []graphsync.ExtensionData {
	var out []graphsync.ExtensionData
	if x.HasSkip {
		out = append(out, graphsync.ExtensionData{Name: graphsync.ExtensionsDoNotSendFirstBlocks, Data: donotsendfirstblocks.EncodeDoNotSendFirstBlocks(x.Skip)})
	}
	if x.HasCids {
		set := cid.NewSet()
		for k := range x.Ignore {
			set.Add(k)
		}
		out = append(out, graphsync.ExtensionData{Name: graphsync.ExtensionDoNotSendCIDs, Data: cidset.EncodeCidSet(set)})
	}
	if x.Key != "" {
		d, _ := dedupkey.EncodeDedupKey(x.Key)
		out = append(out, graphsync.ExtensionData{Name: graphsync.ExtensionDeDupByKey, Data: d})
	}
	return out
}

func genC03Ext(r *rand.Rand, c *Case, total int) c03ext {
	var x c03ext
	x.Ignore = map[cid.Cid]bool{}
	if r.Intn(2) == 0 {
		x.HasSkip = true
		x.Skip = []int64{0, 1, int64(1 + r.Intn(total+1)), int64(total), int64(total + 5), -3}[r.Intn(6)]
	}
	if r.Intn(2) == 0 {
		x.HasCids = true
		for _, k := range c.FullOrder {
			if r.Intn(3) == 0 {
				x.Ignore[k] = true
			}
		}
		if r.Intn(4) == 0 {
			// cids outside the DAG
			x.Ignore[cid.NewCidV1(cid.Raw, c.DAG.Root.Hash())] = true
		}
	}
	if r.Intn(2) == 0 {
		x.Key = []string{"k1", "k2"}[r.Intn(2)]
	}
	return x
}

func effSkip(x c03ext) int64 {
	if !x.HasSkip || x.Skip < 0 {
		return 0
	}
	return x.Skip
}

// TestC03: responder output mirrors its own selector traversal.
func TestC03(t *testing.T) {
	p := rt.Load()
	rep := rt.NewReporter(p)
	defer rep.Flush(false)
	for _, ci := range p.Cases() {
		c := GenCase(p, "c03", ci, "")
		r := p.RNG("c03x", ci)
		rr := ref.SingleStore(c.DAG.Root, c.Sel, HasFn(c.DAG, c.RespHas), 0)
		if rr.Err != nil {
			continue
		}
		mode := []string{"single", "single", "sequential", "overlap"}[r.Intn(4)]
		if p.Sub == "aftercancel" {
			// request 1 is cancelled by its requestor while paused / while running; whatever is requested
			// afterwards (same id or a new one, same scope) must be served in full again
			mode = "after-cancel"
		}
		ext1 := genC03Ext(r, c, len(rr.Loads))
		ext2 := genC03Ext(r, c, len(rr.Loads))
		if mode == "overlap" && r.Intn(2) == 0 {
			ext2.Key = ext1.Key // same scope half of the time
		}
		rep.Journal("case %d mode=%s blocks=%d resp=%s loads=%d ext1=%+v", ci, mode, len(c.DAG.Blocks), c.RespClass, len(rr.Loads), ext1.Skip)
		w := NewWorld()
		pert := NewPerturber(c.PertSeed, 1)
		sb := store.New("B.store", w.Log)
		Fill(sb, c.DAG, c.RespHas)
		B := w.AddGS("B", sb, NodeOpts{})
		R := w.AddRaw("R")
		w.Fab.Link(B.ID, R.ID).Delay = pert.LinkDelay()
		rep.Eval()
		detail := func(extra map[string]any) map[string]any {
			d := c.Detail()
			d["mode"] = mode
			d["responder_loads"] = ref.FmtLoads(rr.Loads)
			d["ext1"] = fmt.Sprintf("%+v", ext1)
			d["ext2"] = fmt.Sprintf("%+v", ext2)
			d["event_log_tail"] = w.Log.Tail(50)
			for k, v := range extra {
				d[k] = v
			}
			return d
		}
		fail := func(sig, what string, extra map[string]any) {
			if sig != "" {
				rep.Violation(ci, sig, what, detail(extra))
			}
		}
		var ignoredByOther map[cid.Cid]bool
		reuseID := graphsync.RequestID{}
		useReuse := false
		runOne := func(x c03ext, already map[cid.Cid]bool, exact bool, tag string) bool {
			id := graphsync.NewRequestID()
			if useReuse {
				id = reuseID
			}
			_ = RawSend(R, B.ID, NewReq(id, c.DAG.Root, c.Sel, x.exts()...))
			got, inc := AwaitTerminal(w, R, B.ID, id)
			if inc != "" {
				rep.Inconclusive("case %d %s: %s", ci, tag, inc)
				return false
			}
			_ = got
			e := &respExpect{Loads: rr.Loads, Skip: effSkip(x), Ignore: x.Ignore, Already: already, IgnoredByOther: ignoredByOther}
			sig, what := checkView(ViewOf(R, B.ID, id), e, rr.RootMissing, exact)
			fail(sig, tag+": "+what, map[string]any{"request": tag})
			return true
		}
		switch mode {
		case "single":
			runOne(ext1, nil, true, "request-1")
		case "sequential":
			if runOne(ext1, nil, true, "request-1") {
				if ok, _ := w.Quiesce(); ok {
					runOne(ext2, nil, true, "request-2 (after request-1 finished, must be served in full again)")
				}
			}
		case "after-cancel":
			nReads := len(rr.Loads)
			if nReads < 2 || rr.RootMissing {
				runOne(ext1, nil, true, "request-1")
				break
			}
			state := []string{"paused", "running"}[r.Intn(2)]
			k := 1 + r.Intn(nReads-1)
			ext2.Key = ext1.Key
			id1 := graphsync.NewRequestID()
			release := make(chan struct{})
			entered := make(chan struct{}, 1)
			var pausedOnce int32
			if state == "paused" {
				B.OnOutgoingBlock = func(pp peer.ID, rq graphsync.RequestData, b graphsync.BlockData, a graphsync.OutgoingBlockHookActions) {
					if rq.ID() == id1 && b.Index() >= int64(k) && atomic.CompareAndSwapInt32(&pausedOnce, 0, 1) {
						a.PauseResponse()
					}
				}
			} else {
				sb.BeforeRead = func(n int, lnk cid.Cid, path string) error {
					if n == k {
						sb.HeldAdd(1)
						entered <- struct{}{}
						<-release
						sb.HeldAdd(-1)
					}
					return nil
				}
			}
			_ = RawSend(R, B.ID, NewReq(id1, c.DAG.Root, c.Sel, ext1.exts()...))
			if state == "running" {
				<-entered
			}
			if ok, why := w.Quiesce(); !ok {
				rep.Inconclusive("case %d after-cancel: %s", ci, why)
				if state == "running" {
					close(release)
				}
				break
			}
			st1 := B.Impl.PeerState(R.ID).IncomingState.RequestStates[id1].String()
			_ = RawSend(R, B.ID, gsmsg.NewCancelRequest(id1))
			if ok, why := w.Quiesce(); !ok {
				rep.Inconclusive("case %d after-cancel: %s", ci, why)
			}
			atomic.StoreInt32(&pausedOnce, 1) // the hook belongs to request 1 only, also when its id is used again
			if state == "running" {
				close(release)
				sb.BeforeRead = nil
			}
			// the cancelled response must be gone before the next request starts
			gone := false
			for try := 0; try < 200 && !gone; try++ {
				if ok, _ := w.Q.Sustained(20 * time.Millisecond); ok {
					_, still := B.Impl.PeerState(R.ID).IncomingState.RequestStates[id1]
					gone = !still
				}
			}
			if !gone {
				rep.Inconclusive("case %d after-cancel: the cancelled response is still listed", ci)
				break
			}
			if r.Intn(2) == 0 {
				useReuse, reuseID = true, id1
			}
			if _, seen := ViewOf(R, B.ID, id1).Terminal, ViewOf(R, B.ID, id1).HasTerm; seen && useReuse {
				useReuse = false // the first response already ended by itself: the view of a re-used id would mix two responses
			}
			prior := len(ViewOf(R, B.ID, id1).Entries)
			if useReuse && prior > 0 {
				useReuse = false // keep the two responses' views apart: use a fresh id when request 1 already produced output
			}
			runOne(ext2, nil, true, fmt.Sprintf("request-2 (same scope, after request-1 was cancelled by its requestor while %s [reported state %s, %d loads done], id re-used=%v)", state, st1, k, useReuse))
			rep.Count("after_cancel_cases", 1)
			rep.SetAdd("after_cancel_states", state+"/"+st1)
		case "overlap":
			// hold request 1 at its k-th store read, run request 2 to completion, release request 1
			nReads := 0
			for _, l := range rr.Loads {
				_ = l
				nReads++
			}
			if nReads < 2 {
				runOne(ext1, nil, true, "request-1")
				break
			}
			k := 1 + r.Intn(nReads-1) // hold before the (k+1)-th read: k reads done
			release := make(chan struct{})
			entered := make(chan struct{}, 1)
			sb.BeforeRead = func(n int, lnk cid.Cid, path string) error {
				if n == k {
					sb.HeldAdd(1)
					entered <- struct{}{}
					<-release
					sb.HeldAdd(-1)
				}
				return nil
			}
			id1 := graphsync.NewRequestID()
			_ = RawSend(R, B.ID, NewReq(id1, c.DAG.Root, c.Sel, ext1.exts()...))
			<-entered
			if ok, why := w.Quiesce(); !ok {
				rep.Inconclusive("case %d overlap: %s", ci, why)
				close(release)
				break
			}
			// request 1 has traversed loads 1..k (recorded in the tracker) and its ignore list counts as in use
			already := map[cid.Cid]bool{}
			ignoredByOther = map[cid.Cid]bool{}
			if ext1.Key == ext2.Key {
				for i := 0; i < k; i++ {
					if rr.Loads[i].Source != ref.Missing {
						already[rr.Loads[i].Link] = true
					}
				}
				for kk := range ext1.Ignore {
					if !already[kk] {
						ignoredByOther[kk] = true
					}
				}
			}
			runOne(ext2, already, true, fmt.Sprintf("request-2 (request-1 held after %d loads, same scope=%v)", k, ext1.Key == ext2.Key))
			close(release)
			got, inc := AwaitTerminal(w, R, B.ID, id1)
			_ = got
			if inc != "" {
				rep.Inconclusive("case %d overlap request-1: %s", ci, inc)
			} else {
				e := &respExpect{Loads: rr.Loads, Skip: effSkip(ext1), Ignore: ext1.Ignore}
				sig, what := checkView(ViewOf(R, B.ID, id1), e, rr.RootMissing, false)
				fail(sig, "request-1 (held, then released): "+what, nil)
			}
			rep.Count("overlap_cases", 1)
		}
		rep.Nontrivial(rt.Key(c.DAG.Root, SelJSON(c.Sel), SortedCids(c.RespHas), mode, fmt.Sprintf("%+v%+v", ext1, ext2)))
		rep.Count("metadata_entries_expected", int64(len(rr.Loads)))
		rep.SetAdd("modes", mode)
		rep.SetAdd("ext_combos", fmt.Sprintf("%v%v%v", ext1.HasSkip, ext1.HasCids, ext1.Key != ""))
		if ci%97 == 0 {
			s := c.Describe()
			s["mode"] = mode
			s["ext1"] = fmt.Sprintf("skip=%v/%d cids=%d key=%q", ext1.HasSkip, ext1.Skip, len(ext1.Ignore), ext1.Key)
			rep.Sample(s)
		}
		pert.Stop()
		w.Close()
	}
	rep.Flush(true)
}

var _ = fab.PeerID

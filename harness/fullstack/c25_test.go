package fullstack

import (
	"context"
	"fmt"
	"math/rand"
	"sync"
	"sync/atomic"
	"testing"
	"time"

	"github.com/ipfs/go-cid"
	"github.com/ipld/go-ipld-prime/node/basicnode"
	"github.com/libp2p/go-libp2p/core/peer"

	"github.com/ipfs/go-graphsync"
	gsimpl "github.com/ipfs/go-graphsync/impl"
	gsmsg "github.com/ipfs/go-graphsync/message"

	"verif/harness/gen"
	"verif/harness/rt"
	"verif/harness/store"
)

func strExt(v string) graphsync.ExtensionData {
	return graphsync.ExtensionData{Name: verifExt, Data: basicnode.NewString(v)}
}

func extOfReq(r graphsync.RequestData) string {
	d, ok := r.Extension(verifExt)
	if !ok || d == nil {
		return ""
	}
	s, err := d.AsString()
	if err != nil {
		return ""
	}
	return s
}

// smallCase draws a DAG whose full traversal is small (shared sub-DAGs can make it explode) with
// its reference outcome for a requestor that holds nothing and a responder that holds everything.
func smallCase(r *rand.Rand, ci int, salt string) (*gen.DAG, *Case) {
	for try := 0; ; try++ {
		d := gen.GenDAG(r, gen.DagOpts{MinBlocks: 4, MaxBlocks: 12, Salt: fmt.Sprintf("%s-%d", salt, try)})
		all := map[cid.Cid]bool{}
		for k := range d.Blocks {
			all[k] = true
		}
		c := MakeCase(ci, d, gen.AllSelector(), "all", map[cid.Cid]bool{}, all)
		if c.Exp.Err == nil && len(c.Exp.Loads) <= 300 {
			return d, c
		}
	}
}

// settle waits for logical quiescence. When the node's manager goroutine stays unresponsive (the
// mailbox barrier got no answer during three consecutive 2 s attempts) it reports "blocked" instead of
// waiting for the full watchdog: a blocked manager never becomes quiescent because deliveries to it hang.
func settle(w *World, n *GSNode) (state string, why string) {
	blockedFor := 0
	for i := 0; i < 30; i++ {
		ok, y := w.Q.Await(5, 2*time.Second)
		if ok {
			return "quiet", ""
		}
		why = y
		if atomic.LoadInt32(&n.LoopBlocked) != 0 {
			blockedFor++
			if blockedFor >= 3 {
				return "blocked", y
			}
		} else {
			blockedFor = 0
		}
	}
	return "", why
}

// healthyKinds are the request shapes healthy peers use: each drives a different responder-side
// path (hooks, extensions, updates, pauses).
var healthyKinds = []string{"plain", "ext", "update", "pause-unpause"}

// TestC25: a stalled peer cannot block service to other peers.
//
// sub "responder": peer S's connection is stalled and its memory allowance fills; healthy peers'
// requests must still be accepted, processed and answered.
// sub "requestor": responder S never finishes answering and the connection to it is stalled;
// the requestor's exchanges with other responders must still complete.
func TestC25(t *testing.T) {
	p := rt.Load()
	rep := rt.NewReporter(p)
	defer rep.Flush(false)
	for _, ci := range p.Cases() {
		if p.Sub == "requestor" {
			c25Requestor(p, rep, ci)
		} else {
			c25Responder(p, rep, ci)
		}
	}
	rep.Flush(true)
}

func c25Responder(p rt.Params, rep *rt.Reporter, ci int) {
	r := p.RNG("c25", ci)
	W := uint64(2 + r.Intn(3))
	L := uint64(0)
	if r.Intn(10) < 7 {
		L = 1 + uint64(r.Intn(int(W-1)))
	}
	blk := 1000 + r.Intn(2000)
	allowance := uint64(blk * (2 + r.Intn(3)))
	nS := 1 + r.Intn(int(W)+1)
	nH := 1 + r.Intn(2)
	w := NewWorld()
	pert := NewPerturber(r.Int63(), 1)
	defer pert.Stop()
	rs := store.New("R.store", w.Log)
	opts := []gsimpl.Option{gsimpl.MaxInProgressIncomingRequests(W), gsimpl.MaxMemoryPerPeerResponder(allowance), gsimpl.MaxMemoryResponder(1 << 30)}
	if L > 0 {
		opts = append(opts, gsimpl.MaxInProgressIncomingRequestsPerPeer(L))
	}
	R := w.AddGS("R", rs, NodeOpts{Options: opts, Workers: W})
	if L > 0 {
		R.Workers = 0 // tasks of a peer at its per-peer limit legitimately stay pending beside free workers
	}
	S := w.AddRaw("S")
	w.Fab.Link(R.ID, S.ID).Stall()
	ack := string(make([]byte, 0))
	for i := 0; i < 20; i++ {
		ack += "0123456789"
	}
	pauseRoots := map[cid.Cid]bool{}
	var hmu sync.Mutex
	pausedOnce := map[graphsync.RequestID]bool{}
	R.OnRequest = func(pp peer.ID, rq graphsync.RequestData, a graphsync.IncomingRequestHookActions) {
		a.ValidateRequest()
		if extOfReq(rq) == "ext" {
			a.SendExtensionData(strExt("ack-" + ack))
		}
	}
	R.OnUpdate = func(pp peer.ID, rq graphsync.RequestData, u graphsync.RequestData, a graphsync.RequestUpdatedHookActions) {
		switch extOfReq(u) {
		case "hello":
			a.SendExtensionData(strExt("ack-" + ack))
		case "unpause":
			a.UnpauseResponse()
		}
	}
	R.OnOutgoingBlock = func(pp peer.ID, rq graphsync.RequestData, b graphsync.BlockData, a graphsync.OutgoingBlockHookActions) {
		hmu.Lock()
		defer hmu.Unlock()
		if pauseRoots[rq.Root()] && b.Index() >= 1 && !pausedOnce[rq.ID()] {
			pausedOnce[rq.ID()] = true
			a.PauseResponse()
		}
	}
	// the stalled peer's requests
	type sreq struct {
		id  graphsync.RequestID
		dag *gen.DAG
	}
	var sreqs []sreq
	newS := func(ext string) {
		d := gen.FlatDAG(r, 8+r.Intn(8), blk, fmt.Sprintf("c25s-%d-%d", ci, len(sreqs)))
		for k, b := range d.Blocks {
			rs.Put(k, b)
		}
		id := graphsync.NewRequestID()
		sreqs = append(sreqs, sreq{id, d})
		var exts []graphsync.ExtensionData
		if ext != "" {
			exts = append(exts, strExt(ext))
		}
		_ = RawSend(S, R.ID, NewReq(id, d.Root, gen.AllSelector(), exts...))
	}
	for i := 0; i < nS; i++ {
		newS("")
	}
	inc := ""
	if st, why := settle(w, R); st == "" {
		inc = "stall phase: " + why
	}
	st := R.GS.Stats()
	stalled := st.OutgoingResponses.NumPeersWithPendingAllocations >= 1
	// actions of / about the stalled peer while it is stalled; "sized" ones make the response
	// manager's own goroutine build a message with a non-zero reservation for S
	apiCtx, apiCancel := context.WithCancel(context.Background())
	defer apiCancel()
	var apiWG sync.WaitGroup
	api := func(f func()) {
		apiWG.Add(1)
		go func() { defer apiWG.Done(); f() }()
	}
	var sActs []string
	sized := false
	nAct := r.Intn(5)
	for k := 0; k < nAct && inc == ""; k++ {
		j := sreqs[r.Intn(len(sreqs))]
		acts := []string{"new-request", "cancel", "api-cancel", "api-cancel-twice", "update-plain", "api-pause", "api-unpause", "cancel+api-cancel"}
		if r.Intn(4) == 0 {
			acts = []string{"new-request-ext", "update-hello", "api-unpause-ext"}
		}
		act := acts[r.Intn(len(acts))]
		sActs = append(sActs, act)
		switch act {
		case "new-request":
			newS("")
		case "new-request-ext":
			newS("ext")
			sized = true
		case "cancel":
			_ = RawSend(S, R.ID, gsmsg.NewCancelRequest(j.id))
		case "api-cancel":
			api(func() { _ = R.GS.Cancel(apiCtx, j.id) })
		case "api-cancel-twice":
			api(func() { _ = R.GS.Cancel(apiCtx, j.id) })
			api(func() { _ = R.GS.Cancel(apiCtx, j.id) })
		case "cancel+api-cancel":
			_ = RawSend(S, R.ID, gsmsg.NewCancelRequest(j.id))
			api(func() { _ = R.GS.Cancel(apiCtx, j.id) })
		case "update-plain":
			_ = RawSend(S, R.ID, gsmsg.NewUpdateRequest(j.id, strExt("noreply")))
		case "update-hello":
			_ = RawSend(S, R.ID, gsmsg.NewUpdateRequest(j.id, strExt("hello")))
			sized = true
		case "api-pause":
			api(func() { _ = R.GS.Pause(apiCtx, j.id) })
		case "api-unpause":
			api(func() { _ = R.GS.Unpause(apiCtx, j.id) })
		case "api-unpause-ext":
			api(func() { _ = R.GS.Unpause(apiCtx, j.id, strExt("resumed-"+ack)) })
			sized = true
		}
		if r.Intn(2) == 0 {
			if st, why := settle(w, R); st == "" {
				inc = "stalled-peer actions: " + why
			}
		}
	}
	// healthy peers
	type hreq struct {
		req  *Req
		c    *Case
		kind string
		node *GSNode
	}
	var hreqs []hreq
	for h := 0; h < nH && inc == ""; h++ {
		hs := store.New(fmt.Sprintf("H%d.store", h), w.Log)
		H := w.AddGS(fmt.Sprintf("H%d", h), hs, NodeOpts{})
		updated := map[graphsync.RequestID]bool{}
		var umu sync.Mutex
		kinds := map[graphsync.RequestID]string{}
		H.OnIncomingBlock = func(pp peer.ID, rsd graphsync.ResponseData, b graphsync.BlockData, a graphsync.IncomingBlockHookActions) {
			umu.Lock()
			defer umu.Unlock()
			if kinds[rsd.RequestID()] == "update" && !updated[rsd.RequestID()] {
				updated[rsd.RequestID()] = true
				a.UpdateRequestWithExtensions(strExt("hello"))
			}
		}
		H.OnResponse = func(pp peer.ID, rsd graphsync.ResponseData, a graphsync.IncomingResponseHookActions) {
			if rsd.Status() == graphsync.RequestPaused {
				a.UpdateRequestWithExtensions(strExt("unpause"))
			}
		}
		for q := 0; q < 1+r.Intn(3); q++ {
			kind := healthyKinds[r.Intn(len(healthyKinds))]
			d, c := smallCase(r, ci, fmt.Sprintf("c25h-%d-%d-%d", ci, h, q))
			for k, b := range d.Blocks {
				rs.Put(k, b)
			}
			if kind == "pause-unpause" {
				hmu.Lock()
				pauseRoots[d.Root] = true
				hmu.Unlock()
			}
			id := graphsync.NewRequestID()
			umu.Lock()
			kinds[id] = kind
			umu.Unlock()
			var exts []graphsync.ExtensionData
			if kind == "ext" {
				exts = append(exts, strExt("ext"))
			}
			hreqs = append(hreqs, hreq{w.RequestWithID(id, H, R.ID, d.Root, gen.AllSelector(), exts...), c, kind, H})
			rep.SetAdd("healthy_request_kinds", kind)
		}
	}
	// verdict at quiescence: logical time has stopped; whatever is not finished now never will be
	// while S stays stalled
	starved := ""
	phase := ""
	if inc == "" {
		var why string
		if phase, why = settle(w, R); phase == "" {
			inc = "healthy phase: " + why
		}
	}
	if inc == "" {
		stable := 0
		for round := 0; round < 10 && stable < 2; round++ {
			starved = ""
			for _, h := range hreqs {
				if !h.req.Closed() {
					starved = fmt.Sprintf("request %s (%s) of healthy peer %s got no complete answer while peer S is stalled", h.req.ID, h.kind, h.node.Name)
				}
			}
			if starved == "" {
				break
			}
			if phase == "blocked" {
				// no quiescence is possible: confirm that the manager stays blocked
				var why string
				if phase, why = settle(w, R); phase == "" {
					inc = "confirming starvation: " + why
					break
				}
				if phase == "blocked" {
					stable++
				}
				continue
			}
			if ok, _ := w.Q.Sustained(1500 * time.Millisecond); ok {
				stable++
			} else {
				var why string
				if phase, why = settle(w, R); phase == "" {
					inc = "confirming starvation: " + why
					break
				}
			}
		}
		if inc == "" && starved != "" && stable < 2 {
			inc = "a healthy request stays unfinished but the system never stayed quiet long enough to decide: " + starved
			starved = ""
		}
	}
	loopBlocked := atomic.LoadInt32(&R.LoopBlocked) != 0
	stEnd := R.GS.Stats()
	rep.Eval()
	detail := map[string]any{"case": ci, "sub": "responder", "workers": W, "per_peer_limit": L, "allowance": allowance, "block_size": blk, "stalled_peer_requests": len(sreqs),
		"stalled_peer_actions": sActs, "healthy_peers": nH, "healthy_requests": len(hreqs), "stall_established": stalled, "manager_loop_blocked": loopBlocked,
		"incoming_active": stEnd.IncomingRequests.Active, "incoming_pending": stEnd.IncomingRequests.Pending, "pending_allocations": stEnd.OutgoingResponses.TotalPendingAllocations}
	switch {
	case inc != "":
		rep.Inconclusive("case %d: %s", ci, inc)
	case starved != "":
		detail["event_log_tail"] = w.Log.Tail(60)
		sig := "C25/healthy-peer-starved"
		switch {
		case loopBlocked && sized:
			// recorded finding: the response manager's goroutine itself waits for S's reservation
			sig = "C25/manager-loop-blocks-on-reservation"
		case !loopBlocked && (L == 0 || L >= W) && uint64(len(sreqs)) >= W:
			// recorded finding: every worker is parked on S's reservation
			sig = "C25/all-workers-parked-on-stalled-peer"
		}
		if loopBlocked {
			starved += " (the response manager's goroutine is blocked)"
		}
		rep.Violation(ci, sig, starved, detail)
	default:
		bad := false
		for _, h := range hreqs {
			if mm := CompareOutcome("C25", h.req, h.c.Exp, h.node.Store); mm != nil {
				detail["event_log_tail"] = w.Log.Tail(60)
				rep.Violation(ci, mm.Sig, fmt.Sprintf("healthy peer %s, request kind %s: %s", h.node.Name, h.kind, mm.What), detail)
				bad = true
				break
			}
		}
		if !bad && stalled && len(hreqs) > 0 {
			rep.Nontrivial(rt.Key("c25r", W, L, len(sreqs), len(sActs), len(hreqs), ci))
			rep.Count("healthy_requests_answered", int64(len(hreqs)))
			rep.Count("stalled_peer_actions", int64(len(sActs)))
			for _, a := range sActs {
				rep.SetAdd("stalled_peer_actions", a)
			}
			if sized {
				rep.Count("cases_with_sized_manager_transaction", 1)
			}
			if (L == 0 || L >= W) && uint64(len(sreqs)) >= W {
				rep.Count("cases_with_all_workers_claimable", 1)
			}
		}
	}
	if ci%53 == 0 {
		rep.Sample(detail)
	}
	// teardown: lift the stall first so that everything parked on it drains
	w.Fab.Link(R.ID, S.ID).Unstall()
	apiCancel()
	w.Close() // also ends API calls that wait on a blocked manager (they only give up with the node's context)
	apiWG.Wait()
}

func c25Requestor(p rt.Params, rep *rt.Reporter, ci int) {
	r := p.RNG("c25q", ci)
	W := uint64(3 + r.Intn(3))
	nS := 1 + r.Intn(int(W)-1) // always leaves a worker for healthy exchanges
	nH := 1 + r.Intn(2)
	w := NewWorld()
	pert := NewPerturber(r.Int63(), 1)
	defer pert.Stop()
	as := store.New("A.store", w.Log)
	A := w.AddGS("A", as, NodeOpts{Options: []gsimpl.Option{gsimpl.MaxInProgressOutgoingRequests(W)}, Workers: W})
	kinds := map[graphsync.RequestID]string{}
	updated := map[graphsync.RequestID]bool{}
	var umu sync.Mutex
	A.OnIncomingBlock = func(pp peer.ID, rsd graphsync.ResponseData, b graphsync.BlockData, a graphsync.IncomingBlockHookActions) {
		umu.Lock()
		defer umu.Unlock()
		if kinds[rsd.RequestID()] == "update" && !updated[rsd.RequestID()] {
			updated[rsd.RequestID()] = true
			a.UpdateRequestWithExtensions(strExt("hello"))
		}
	}
	A.OnResponse = func(pp peer.ID, rsd graphsync.ResponseData, a graphsync.IncomingResponseHookActions) {
		if rsd.Status() == graphsync.RequestPaused {
			a.UpdateRequestWithExtensions(strExt("unpause"))
		}
	}
	S := w.AddRaw("S")
	// S answers each request with a few valid blocks and then goes silent; the connection A->S stalls
	// after passing the initial requests
	stallOut := r.Intn(2) == 0
	type sreq struct {
		req *Req
		dag *gen.DAG
	}
	var sreqs []sreq
	for i := 0; i < nS; i++ {
		d := gen.FlatDAG(r, 6+r.Intn(6), 200, fmt.Sprintf("c25qs-%d-%d", ci, i))
		sreqs = append(sreqs, sreq{w.Request(A, S.ID, d.Root, gen.AllSelector()), d})
	}
	inc := ""
	if st, why := settle(w, A); st == "" {
		inc = "request phase: " + why
	}
	for _, s := range sreqs {
		k := r.Intn(4)
		if k == 0 {
			continue // never answered at all
		}
		blks := map[cid.Cid][]byte{s.dag.Root: s.dag.Blocks[s.dag.Root]}
		md := []gsmsg.GraphSyncLinkMetadatum{{Link: s.dag.Root, Action: graphsync.LinkActionPresent}}
		for _, c := range s.dag.Order[:k-1] {
			blks[c] = s.dag.Blocks[c]
			md = append(md, gsmsg.GraphSyncLinkMetadatum{Link: c, Action: graphsync.LinkActionPresent})
		}
		_ = RawSendResponse(S, A.ID, []gsmsg.GraphSyncResponse{gsmsg.NewResponse(s.req.ID, graphsync.PartialResponse, md)}, blks)
	}
	if stallOut {
		w.Fab.Link(A.ID, S.ID).Stall()
	}
	if inc == "" {
		if st, why := settle(w, A); st == "" {
			inc = "stall phase: " + why
		}
	}
	apiCtx, apiCancel := context.WithCancel(context.Background())
	defer apiCancel()
	var apiWG sync.WaitGroup
	api := func(f func()) {
		apiWG.Add(1)
		go func() { defer apiWG.Done(); f() }()
	}
	var sActs []string
	for k := 0; k < r.Intn(5) && inc == ""; k++ {
		j := sreqs[r.Intn(len(sreqs))]
		act := []string{"ctx-cancel", "api-cancel", "api-pause", "api-unpause", "api-update", "late-response"}[r.Intn(6)]
		sActs = append(sActs, act)
		switch act {
		case "ctx-cancel":
			j.req.Cancel()
		case "api-cancel":
			api(func() { _ = A.GS.Cancel(apiCtx, j.req.ID) })
		case "api-pause":
			api(func() { _ = A.GS.Pause(apiCtx, j.req.ID) })
		case "api-unpause":
			api(func() { _ = A.GS.Unpause(apiCtx, j.req.ID) })
		case "api-update":
			api(func() { _ = A.GS.SendUpdate(apiCtx, j.req.ID, strExt("hello")) })
		case "late-response":
			_ = RawSendResponse(S, A.ID, []gsmsg.GraphSyncResponse{gsmsg.NewResponse(j.req.ID, graphsync.PartialResponse, nil)}, nil)
		}
	}
	type hreq struct {
		req  *Req
		c    *Case
		kind string
	}
	var hreqs []hreq
	for h := 0; h < nH && inc == ""; h++ {
		hs := store.New(fmt.Sprintf("H%d.store", h), w.Log)
		H := w.AddGS(fmt.Sprintf("H%d", h), hs, NodeOpts{})
		pauseRoots := map[cid.Cid]bool{}
		pausedOnce := map[graphsync.RequestID]bool{}
		var hmu sync.Mutex
		H.OnRequest = func(pp peer.ID, rq graphsync.RequestData, a graphsync.IncomingRequestHookActions) {
			a.ValidateRequest()
			if extOfReq(rq) == "ext" {
				a.SendExtensionData(strExt("ack"))
			}
		}
		H.OnUpdate = func(pp peer.ID, rq graphsync.RequestData, u graphsync.RequestData, a graphsync.RequestUpdatedHookActions) {
			switch extOfReq(u) {
			case "hello":
				a.SendExtensionData(strExt("ack"))
			case "unpause":
				a.UnpauseResponse()
			}
		}
		H.OnOutgoingBlock = func(pp peer.ID, rq graphsync.RequestData, b graphsync.BlockData, a graphsync.OutgoingBlockHookActions) {
			hmu.Lock()
			defer hmu.Unlock()
			if pauseRoots[rq.Root()] && b.Index() >= 1 && !pausedOnce[rq.ID()] {
				pausedOnce[rq.ID()] = true
				a.PauseResponse()
			}
		}
		for q := 0; q < 1+r.Intn(2); q++ {
			kind := healthyKinds[r.Intn(len(healthyKinds))]
			d, c := smallCase(r, ci, fmt.Sprintf("c25qh-%d-%d-%d", ci, h, q))
			for k, b := range d.Blocks {
				hs.Put(k, b)
			}
			if kind == "pause-unpause" {
				hmu.Lock()
				pauseRoots[d.Root] = true
				hmu.Unlock()
			}
			id := graphsync.NewRequestID()
			umu.Lock()
			kinds[id] = kind
			umu.Unlock()
			var exts []graphsync.ExtensionData
			if kind == "ext" {
				exts = append(exts, strExt("ext"))
			}
			hreqs = append(hreqs, hreq{w.RequestWithID(id, A, H.ID, d.Root, gen.AllSelector(), exts...), c, kind})
			rep.SetAdd("healthy_request_kinds", kind)
		}
	}
	starved := ""
	phase := ""
	if inc == "" {
		var why string
		if phase, why = settle(w, A); phase == "" {
			inc = "healthy phase: " + why
		}
	}
	if inc == "" {
		stable := 0
		for round := 0; round < 10 && stable < 2; round++ {
			starved = ""
			for _, h := range hreqs {
				if !h.req.Closed() {
					starved = fmt.Sprintf("request %s (%s) to a healthy responder did not complete while responder S is stalled", h.req.ID, h.kind)
				}
			}
			if starved == "" {
				break
			}
			if phase == "blocked" {
				var why string
				if phase, why = settle(w, A); phase == "" {
					inc = "confirming starvation: " + why
					break
				}
				if phase == "blocked" {
					stable++
				}
				continue
			}
			if ok, _ := w.Q.Sustained(1500 * time.Millisecond); ok {
				stable++
			} else {
				var why string
				if phase, why = settle(w, A); phase == "" {
					inc = "confirming starvation: " + why
					break
				}
			}
		}
		if inc == "" && starved != "" && stable < 2 {
			inc = "a healthy request stays unfinished but the system never stayed quiet long enough to decide: " + starved
			starved = ""
		}
	}
	loopBlocked := atomic.LoadInt32(&A.LoopBlocked) != 0
	rep.Eval()
	detail := map[string]any{"case": ci, "sub": "requestor", "outgoing_workers": W, "requests_to_stalled_responder": nS, "connection_to_stalled_responder_stalled": stallOut,
		"stalled_responder_actions": sActs, "healthy_responders": nH, "healthy_requests": len(hreqs), "manager_loop_blocked": loopBlocked}
	switch {
	case inc != "":
		rep.Inconclusive("case %d: %s", ci, inc)
	case starved != "":
		detail["event_log_tail"] = w.Log.Tail(60)
		if loopBlocked {
			starved += " (the request manager's goroutine is blocked)"
		}
		rep.Violation(ci, "C25/healthy-exchange-starved", starved, detail)
	default:
		bad := false
		for _, h := range hreqs {
			if mm := CompareOutcome("C25", h.req, h.c.Exp, as); mm != nil {
				detail["event_log_tail"] = w.Log.Tail(60)
				rep.Violation(ci, mm.Sig, fmt.Sprintf("request kind %s to a healthy responder: %s", h.kind, mm.What), detail)
				bad = true
				break
			}
		}
		if !bad && len(hreqs) > 0 {
			rep.Nontrivial(rt.Key("c25q", W, nS, len(sActs), len(hreqs), ci))
			rep.Count("healthy_requests_answered", int64(len(hreqs)))
			for _, a := range sActs {
				rep.SetAdd("stalled_responder_actions", a)
			}
		}
	}
	if ci%53 == 0 {
		rep.Sample(detail)
	}
	w.Fab.Link(A.ID, S.ID).Unstall()
	apiCancel()
	w.Close() // also ends API calls that wait on a blocked manager (they only give up with the node's context)
	apiWG.Wait()
}

package fullstack

import (
	"context"
	"fmt"
	"sync"
	"testing"
	"time"

	"github.com/ipfs/go-cid"

	"github.com/ipfs/go-graphsync"
	gsimpl "github.com/ipfs/go-graphsync/impl"
	gsmsg "github.com/ipfs/go-graphsync/message"

	"verif/harness/gen"
	"verif/harness/rt"
	"verif/harness/store"
)

// gate holds store reads of selected DAGs.
type dagGate struct {
	mu      sync.Mutex
	cond    *sync.Cond
	held    map[int]bool
	owner   map[string]int // cid key -> dag index
	st      *store.Store
	waiting int
}

func newDagGate(st *store.Store) *dagGate {
	g := &dagGate{held: map[int]bool{}, owner: map[string]int{}, st: st}
	g.cond = sync.NewCond(&g.mu)
	st.BeforeRead = func(n int, lnk cid.Cid, path string) error {
		g.mu.Lock()
		i, ok := g.owner[lnk.KeyString()]
		if ok && g.held[i] {
			g.st.HeldAdd(1)
			g.waiting++
			for g.held[i] {
				g.cond.Wait()
			}
			g.waiting--
			g.st.HeldAdd(-1)
		}
		g.mu.Unlock()
		return nil
	}
	return g
}

func (g *dagGate) set(i int, held bool) {
	g.mu.Lock()
	g.held[i] = held
	g.cond.Broadcast()
	g.mu.Unlock()
}

func (g *dagGate) releaseAll() {
	g.mu.Lock()
	for i := range g.held {
		g.held[i] = false
	}
	g.cond.Broadcast()
	g.mu.Unlock()
}

// TestC23: reported request state agrees with the work queue at quiescent points.
func TestC23(t *testing.T) {
	p := rt.Load()
	rep := rt.NewReporter(p)
	defer rep.Flush(false)
	for _, ci := range p.Cases() {
		r := p.RNG("c23", ci)
		nreq := 3 + r.Intn(6)
		wOut := uint64(1 + r.Intn(3))
		wIn := uint64(1 + r.Intn(3))
		rep.Journal("case %d nreq=%d wOut=%d wIn=%d", ci, nreq, wOut, wIn)
		w := NewWorld()
		pert := NewPerturber(r.Int63(), 1)
		sa := store.New("A.store", w.Log)
		A := w.AddGS("A", sa, NodeOpts{Options: []gsimpl.Option{gsimpl.MaxInProgressOutgoingRequests(wOut)}, Workers: wOut})
		nresp := 1 + r.Intn(2)
		var Bs []*GSNode
		var gates []*dagGate
		for b := 0; b < nresp; b++ {
			sb := store.New(fmt.Sprintf("B%d.store", b), w.Log)
			Bs = append(Bs, w.AddGS(fmt.Sprintf("B%d", b), sb, NodeOpts{Options: []gsimpl.Option{gsimpl.MaxInProgressIncomingRequests(wIn)}, Workers: wIn}))
			gates = append(gates, newDagGate(sb))
		}
		dags := make([]*gen.DAG, nreq)
		resp := make([]int, nreq)
		for i := range dags {
			dags[i] = gen.GenDAG(r, gen.DagOpts{MinBlocks: 3, MaxBlocks: 3 + r.Intn(8), Salt: fmt.Sprintf("c23-%d-%d", ci, i)})
			resp[i] = r.Intn(nresp)
			g := gates[resp[i]]
			// some responders lack a leaf block: the response ends partial
			missing := cid.Undef
			if r.Intn(4) == 0 && len(dags[i].Order) > 2 {
				missing = dags[i].Order[r.Intn(len(dags[i].Order)-1)]
			}
			for k, b := range dags[i].Blocks {
				g.owner[k.KeyString()] = i
				if k == missing {
					continue
				}
				Bs[resp[i]].Store.Put(k, b)
			}
		}
		reqs := make([]*Req, nreq)
		var trace []string
		snapshots := 0
		var viol string
		// snapshot: Diagnostics of both directions for every peer, at a constructed quiescent point
		snapshot := func(label string) {
			if viol != "" {
				return
			}
			check := func() string {
				for _, B := range Bs {
					st := A.Impl.PeerState(B.ID)
					if d := st.OutgoingState.Diagnostics(); len(d) > 0 {
						return fmt.Sprintf("requestor A, peer %s, outgoing: %v | states=%v queue=%+v", B.Name, d, st.OutgoingState.RequestStates, st.OutgoingState.TaskQueueState)
					}
					st2 := B.Impl.PeerState(A.ID)
					if d := st2.IncomingState.Diagnostics(); len(d) > 0 {
						return fmt.Sprintf("responder %s, peer A, incoming: %v | states=%v queue=%+v", B.Name, d, st2.IncomingState.RequestStates, st2.IncomingState.TaskQueueState)
					}
				}
				return ""
			}
			if ok, _ := w.Quiesce(); !ok {
				viol = "inconclusive:no quiescence at " + label
				return
			}
			snapshots++
			v := check()
			for try := 0; v != "" && try < 3; try++ {
				// re-confirm over a sustained quiescent window: the disagreement must be stable
				if ok, _ := w.Q.Sustained(400 * time.Millisecond); !ok {
					if ok2, _ := w.Quiesce(); !ok2 {
						viol = "inconclusive:no quiescence at " + label
						return
					}
				}
				v = check()
			}
			if v != "" {
				viol = label + ": " + v
			}
		}
		nsteps := 6 + r.Intn(12)
		ctx, cancel := context.WithTimeout(context.Background(), 120*time.Second)
		for s := 0; s < nsteps && viol == ""; s++ {
			i := r.Intn(nreq)
			switch x := r.Intn(15); {
			case x == 10:
				if reqs[i] != nil {
					_ = A.GS.Pause(ctx, reqs[i].ID)
					trace = append(trace, fmt.Sprintf("requestor-pause(%d)", i))
				}
			case x == 11:
				if reqs[i] != nil {
					_ = A.GS.Unpause(ctx, reqs[i].ID)
					trace = append(trace, fmt.Sprintf("requestor-unpause(%d)", i))
				}
			case x == 12:
				if reqs[i] != nil {
					_ = Bs[resp[i]].GS.Cancel(ctx, reqs[i].ID)
					trace = append(trace, fmt.Sprintf("responder-cancel(%d)", i))
				}
			case x == 13:
				if reqs[i] != nil {
					_ = A.GS.Cancel(ctx, reqs[i].ID)
					trace = append(trace, fmt.Sprintf("requestor-cancel(%d)", i))
				}
			case x == 14:
				// the next send of this responder towards A fails once (network error path)
				b := resp[i]
				var once sync.Once
				w.Fab.Link(Bs[b].ID, A.ID).SetSendErr(func(n int, m gsmsg.GraphSyncMessage) (err error) {
					once.Do(func() { err = fmt.Errorf("verif: injected send failure") })
					return err
				})
				trace = append(trace, fmt.Sprintf("send-error(B%d->A)", b))
			case x < 4:
				if reqs[i] == nil {
					if r.Intn(3) > 0 {
						gates[resp[i]].set(i, true)
					}
					reqs[i] = w.Request(A, Bs[resp[i]].ID, dags[i].Root, gen.AllSelector())
					trace = append(trace, fmt.Sprintf("start(%d->B%d)", i, resp[i]))
				}
			case x < 6:
				gates[resp[i]].set(i, false)
				trace = append(trace, fmt.Sprintf("release(%d)", i))
			case x < 8:
				if reqs[i] != nil {
					reqs[i].Cancel()
					trace = append(trace, fmt.Sprintf("ctx-cancel(%d)", i))
				}
			case x < 9:
				if reqs[i] != nil {
					_ = Bs[resp[i]].GS.Pause(ctx, reqs[i].ID)
					trace = append(trace, fmt.Sprintf("responder-pause(%d)", i))
				}
			default:
				if reqs[i] != nil {
					_ = Bs[resp[i]].GS.Unpause(ctx, reqs[i].ID)
					trace = append(trace, fmt.Sprintf("responder-unpause(%d)", i))
				}
			}
			last := "no-op"
			if len(trace) > 0 {
				last = trace[len(trace)-1]
			}
			snapshot(fmt.Sprintf("after step %d (last op %s)", s, last))
		}
		// end of history: release everything, resume paused responses, let every request end
		for _, g := range gates {
			g.releaseAll()
		}
		for round := 0; round < 4 && viol == ""; round++ {
			if ok, _ := w.Quiesce(); !ok {
				break
			}
			any := false
			for bi, B := range Bs {
				for id, st := range B.Impl.PeerState(A.ID).IncomingState.RequestStates {
					if st == graphsync.Paused {
						_ = B.GS.Unpause(ctx, id)
						any = true
					}
				}
				_ = bi
			}
			for _, B := range Bs {
				for id, st := range A.Impl.PeerState(B.ID).OutgoingState.RequestStates {
					if st == graphsync.Paused {
						_ = A.GS.Unpause(ctx, id)
						any = true
					}
				}
			}
			if !any {
				break
			}
		}
		for _, rq := range reqs {
			if rq != nil {
				select {
				case <-rq.Done():
				case <-time.After(20 * time.Second):
					rq.Cancel()
				}
			}
		}
		snapshot("after all requests ended")
		cancel()
		rep.Eval()
		detail := func() map[string]any {
			return map[string]any{"case": ci, "requests": nreq, "outgoing_workers": wOut, "incoming_workers": wIn, "responders": nresp, "history": trace, "snapshots": snapshots, "event_log_tail": w.Log.Tail(50)}
		}
		switch {
		case len(viol) > 13 && viol[:13] == "inconclusive:":
			rep.Inconclusive("case %d: %s", ci, viol[13:])
		case viol != "":
			sig := "C23/state-disagrees-with-queue"
			rep.Violation(ci, sig, viol, detail())
		default:
			// end state: no active or pending requests, no allocated memory
			bad := ""
			if ok, _ := w.Quiesce(); ok {
				for _, n := range append([]*GSNode{A}, Bs...) {
					st := n.GS.Stats()
					if st.OutgoingRequests.Active != 0 || st.OutgoingRequests.Pending != 0 || st.IncomingRequests.Active != 0 || st.IncomingRequests.Pending != 0 {
						bad = fmt.Sprintf("%s: after all requests ended Stats reports outgoing %+v incoming %+v", n.Name, st.OutgoingRequests, st.IncomingRequests)
					}
					if st.OutgoingResponses.TotalAllocatedAllPeers != 0 || st.OutgoingResponses.TotalPendingAllocations != 0 {
						bad = fmt.Sprintf("%s: after all requests ended %d bytes are still allocated (%d pending)", n.Name, st.OutgoingResponses.TotalAllocatedAllPeers, st.OutgoingResponses.TotalPendingAllocations)
					}
				}
			}
			if bad != "" {
				if ok, _ := w.Q.Sustained(2 * time.Second); ok {
					rep.Violation(ci, "C23/end-state-not-zero", bad, detail())
				}
			}
			rep.Nontrivial(rt.Key("c23", ci, len(trace)))
			rep.Count("quiescent_snapshots", int64(snapshots))
			rep.Count("history_steps", int64(len(trace)))
		}
		if ci%61 == 0 {
			dd := detail()
			delete(dd, "event_log_tail")
			rep.Sample(dd)
		}
		pert.Stop()
		for _, g := range gates {
			g.releaseAll()
		}
		w.Close()
	}
	rep.Flush(true)
}

package fullstack

import (
	"context"
	"fmt"
	"os"
	"strings"
	"sync"
	"testing"
	"time"

	"github.com/ipfs/go-cid"
	"github.com/libp2p/go-libp2p/core/peer"

	"github.com/ipfs/go-graphsync"
	gsimpl "github.com/ipfs/go-graphsync/impl"
	gsmsg "github.com/ipfs/go-graphsync/message"

	"verif/harness/gen"
	"verif/harness/rt"
	"verif/harness/store"
)

// gate holds store reads of selected DAGs.
type dagGate struct {
	mu      sync.Mutex
	cond    *sync.Cond
	held    map[int]bool
	owner   map[string]int // cid key -> dag index
	st      *store.Store
	waiting int
	parkedN map[int]int // reads currently parked, per dag index
}

func newDagGate(st *store.Store) *dagGate {
	g := &dagGate{held: map[int]bool{}, owner: map[string]int{}, st: st, parkedN: map[int]int{}}
	g.cond = sync.NewCond(&g.mu)
	st.BeforeRead = func(n int, lnk cid.Cid, path string) error {
		g.mu.Lock()
		i, ok := g.owner[lnk.KeyString()]
		if ok && g.held[i] {
			g.st.HeldAdd(1)
			g.waiting++
			g.parkedN[i]++
			for g.held[i] {
				g.cond.Wait()
			}
			g.parkedN[i]--
			g.waiting--
			g.st.HeldAdd(-1)
		}
		g.mu.Unlock()
		return nil
	}
	return g
}

func (g *dagGate) set(i int, held bool) {
	g.mu.Lock()
	g.held[i] = held
	g.cond.Broadcast()
	g.mu.Unlock()
}

func (g *dagGate) releaseAll() {
	g.mu.Lock()
	for i := range g.held {
		g.held[i] = false
	}
	g.cond.Broadcast()
	g.mu.Unlock()
}

// TestC23: reported request state agrees with the work queue at quiescent points.
func TestC23(t *testing.T) {
	p := rt.Load()
	rep := rt.NewReporter(p)
	defer rep.Flush(false)
	for _, ci := range p.Cases() {
		r := p.RNG("c23", ci)
		nreq := 3 + r.Intn(6)
		wOut := uint64(1 + r.Intn(3))
		wIn := uint64(1 + r.Intn(3))
		rep.Journal("case %d nreq=%d wOut=%d wIn=%d", ci, nreq, wOut, wIn)
		w := NewWorld()
		pert := NewPerturber(r.Int63(), 1)
		slowStart := r.Intn(3) == 0
		rejectAll := os.Getenv("VERIF_C23_REJECT") != ""
		if slowStart {
			// widen the window between a worker popping a task and the manager starting it
			pert.Pin("tq.beforeExecute", time.Duration(2+r.Intn(6))*time.Millisecond)
		}
		sa := store.New("A.store", w.Log)
		A := w.AddGS("A", sa, NodeOpts{Options: []gsimpl.Option{gsimpl.MaxInProgressOutgoingRequests(wOut)}, Workers: wOut})
		nresp := 1 + r.Intn(2)
		var Bs []*GSNode
		var gates []*dagGate
		for b := 0; b < nresp; b++ {
			sb := store.New(fmt.Sprintf("B%d.store", b), w.Log)
			Bs = append(Bs, w.AddGS(fmt.Sprintf("B%d", b), sb, NodeOpts{Options: []gsimpl.Option{gsimpl.MaxInProgressIncomingRequests(wIn)}, Workers: wIn}))
			gates = append(gates, newDagGate(sb))
		}
		dags := make([]*gen.DAG, nreq)
		resp := make([]int, nreq)
		for i := range dags {
			dags[i] = gen.GenDAG(r, gen.DagOpts{MinBlocks: 3, MaxBlocks: 3 + r.Intn(8), Salt: fmt.Sprintf("c23-%d-%d", ci, i)})
			resp[i] = r.Intn(nresp)
			g := gates[resp[i]]
			// some responders lack a leaf block: the response ends partial
			missing := cid.Undef
			if r.Intn(4) == 0 && len(dags[i].Order) > 2 {
				missing = dags[i].Order[r.Intn(len(dags[i].Order)-1)]
			}
			for k, b := range dags[i].Blocks {
				g.owner[k.KeyString()] = i
				if k == missing {
					continue
				}
				Bs[resp[i]].Store.Put(k, b)
			}
		}
		reqs := make([]*Req, nreq)
		// hook-driven pauses: request i is paused by the requestor (incoming block hook) or by the
		// responder (outgoing block hook) at its k-th block, once
		reqPauseAt := map[cid.Cid]int{}
		respPauseAt := map[cid.Cid]int{}
		for i := range dags {
			switch r.Intn(4) {
			case 0:
				reqPauseAt[dags[i].Root] = r.Intn(3)
			case 1:
				respPauseAt[dags[i].Root] = r.Intn(3)
			}
		}
		var hmu sync.Mutex
		seenIn := map[graphsync.RequestID]int{}
		seenOut := map[graphsync.RequestID]int{}
		rootOf := map[graphsync.RequestID]cid.Cid{}
		arrived := map[cid.Cid]chan struct{}{}
		for i := range dags {
			arrived[dags[i].Root] = make(chan struct{})
		}
		A.OnOutgoingReq = func(p peer.ID, rq graphsync.RequestData, a graphsync.OutgoingRequestHookActions) {
			hmu.Lock()
			rootOf[rq.ID()] = rq.Root()
			hmu.Unlock()
		}
		A.OnIncomingBlock = func(p peer.ID, rs graphsync.ResponseData, b graphsync.BlockData, a graphsync.IncomingBlockHookActions) {
			hmu.Lock()
			defer hmu.Unlock()
			k, ok := reqPauseAt[rootOf[rs.RequestID()]]
			if ok && seenIn[rs.RequestID()] == k {
				a.PauseRequest()
			}
			seenIn[rs.RequestID()]++
		}
		for _, B := range Bs {
			B.OnRequest = func(p peer.ID, rq graphsync.RequestData, a graphsync.IncomingRequestHookActions) {
				if !rejectAll {
					a.ValidateRequest()
				}
				hmu.Lock()
				ch := arrived[rq.Root()]
				hmu.Unlock()
				if ch != nil {
					select {
					case <-ch:
					default:
						close(ch)
					}
				}
			}
			B.OnOutgoingBlock = func(p peer.ID, rq graphsync.RequestData, b graphsync.BlockData, a graphsync.OutgoingBlockHookActions) {
				hmu.Lock()
				defer hmu.Unlock()
				k, ok := respPauseAt[rq.Root()]
				if ok && seenOut[rq.ID()] == k {
					a.PauseResponse()
				}
				seenOut[rq.ID()]++
			}
		}
		var trace []string
		snapshots := 0
		var viol string
		// snapshot: Diagnostics of both directions for every peer, at a constructed quiescent point
		snapshot := func(label string) {
			if viol != "" {
				return
			}
			check := func() string {
				for _, B := range Bs {
					st := A.Impl.PeerState(B.ID)
					if d := st.OutgoingState.Diagnostics(); len(d) > 0 {
						return fmt.Sprintf("requestor A, peer %s, outgoing: %v | states=%v queue=%+v", B.Name, d, st.OutgoingState.RequestStates, st.OutgoingState.TaskQueueState)
					}
					st2 := B.Impl.PeerState(A.ID)
					if d := st2.IncomingState.Diagnostics(); len(d) > 0 {
						return fmt.Sprintf("responder %s, peer A, incoming: %v | states=%v queue=%+v", B.Name, d, st2.IncomingState.RequestStates, st2.IncomingState.TaskQueueState)
					}
				}
				return ""
			}
			if ok, _ := w.Quiesce(); !ok {
				viol = "inconclusive:no quiescence at " + label
				return
			}
			snapshots++
			// the disagreement must be stable: it counts only if it is still there after a window in which
			// the system stayed quiescent throughout
			v, unstable := w.ConfirmStable(check, 400*time.Millisecond)
			if unstable != "" {
				viol = "inconclusive:" + unstable + " at " + label
				return
			}
			if v != "" {
				viol = label + ": " + v
			}
		}
		nsteps := 6 + r.Intn(12)
		ctx, cancel := context.WithTimeout(context.Background(), 120*time.Second)
		stateOf := func(i int) (out, in string) {
			out, in = "none", "none"
			if reqs[i] == nil {
				return "unstarted", "unstarted"
			}
			if st, ok := A.Impl.PeerState(Bs[resp[i]].ID).OutgoingState.RequestStates[reqs[i].ID]; ok {
				out = st.String()
			}
			if st, ok := Bs[resp[i]].Impl.PeerState(A.ID).IncomingState.RequestStates[reqs[i].ID]; ok {
				in = st.String()
			}
			return
		}
		for s := 0; s < nsteps && viol == ""; s++ {
			// state-directed choice: draw (request, op) until the op applies to the request's reported state
			op, i := "", 0
			for try := 0; try < 12 && op == ""; try++ {
				i = r.Intn(nreq)
				out, in := stateOf(i)
				rep.SetAdd("states_at_choice", "requestor:"+out+"/responder:"+in)
				var cands []string
				switch {
				case out == "unstarted":
					cands = []string{"start-held", "start-held", "start", "start-then-cancel"}
				case out == "queued":
					cands = []string{"ctx-cancel", "requestor-cancel", "release-any"}
				case out == "paused":
					cands = []string{"requestor-unpause", "requestor-unpause", "ctx-cancel", "requestor-cancel"}
				case out == "running" && in == "paused":
					cands = []string{"responder-unpause", "responder-unpause", "responder-cancel", "ctx-cancel"}
				case out == "running":
					cands = []string{"release", "release", "requestor-pause", "responder-pause", "ctx-cancel", "requestor-cancel", "responder-cancel", "send-error"}
				default: // ended on the requestor
					if in != "none" {
						cands = []string{"release", "responder-unpause", "responder-cancel"}
					}
				}
				if len(cands) > 0 {
					op = cands[r.Intn(len(cands))]
				}
			}
			if op == "" {
				break
			}
			b := resp[i]
			switch op {
			case "start-then-cancel":
				// start and cancel as soon as the responder has seen the request: the cancel races the
				// responder's worker picking the task up
				reqs[i] = w.Request(A, Bs[b].ID, dags[i].Root, gen.AllSelector())
				select {
				case <-arrived[dags[i].Root]:
				case <-time.After(5 * time.Second):
				}
				reqs[i].Cancel()
			case "start-held", "start":
				gates[b].set(i, op == "start-held")
				reqs[i] = w.Request(A, Bs[b].ID, dags[i].Root, gen.AllSelector())
			case "release":
				gates[b].set(i, false)
			case "release-any":
				j := r.Intn(nreq)
				gates[resp[j]].set(j, false)
				op = fmt.Sprintf("release-any[%d]", j)
			case "ctx-cancel":
				reqs[i].Cancel()
			case "requestor-pause":
				_ = A.GS.Pause(ctx, reqs[i].ID)
			case "requestor-unpause":
				_ = A.GS.Unpause(ctx, reqs[i].ID)
			case "requestor-cancel":
				_ = A.GS.Cancel(ctx, reqs[i].ID)
			case "responder-pause":
				_ = Bs[b].GS.Pause(ctx, reqs[i].ID)
			case "responder-unpause":
				_ = Bs[b].GS.Unpause(ctx, reqs[i].ID)
			case "responder-cancel":
				_ = Bs[b].GS.Cancel(ctx, reqs[i].ID)
			case "send-error":
				// the next send of this responder towards A fails once (network error path)
				var once sync.Once
				w.Fab.Link(Bs[b].ID, A.ID).SetSendErr(func(n int, m gsmsg.GraphSyncMessage) (err error) {
					once.Do(func() { err = fmt.Errorf("verif: injected send failure") })
					return err
				})
			}
			rep.SetAdd("ops_used", op[:min(len(op), 17)])
			trace = append(trace, fmt.Sprintf("%s(%d->B%d)", op, i, b))
			snapshot(fmt.Sprintf("after step %d (last op %s)", s, trace[len(trace)-1]))
			if viol == "" {
				for j := range reqs {
					out, in := stateOf(j)
					rep.SetAdd("states_at_snapshots", "requestor:"+out+"/responder:"+in)
					if os.Getenv("VERIF_C23_DEBUG") != "" && out == "running" && in == "none" {
						rep.Journal("DEBUG case %d req %d running/none after %v\n%s", ci, j, trace, strings.Join(w.Log.Tail(60), "\n"))
					}
				}
			}
		}
		// end of history: release everything, resume paused responses, let every request end
		for _, g := range gates {
			g.releaseAll()
		}
		for round := 0; round < 4 && viol == ""; round++ {
			if ok, _ := w.Quiesce(); !ok {
				break
			}
			any := false
			for bi, B := range Bs {
				for id, st := range B.Impl.PeerState(A.ID).IncomingState.RequestStates {
					if st == graphsync.Paused {
						_ = B.GS.Unpause(ctx, id)
						any = true
					}
				}
				_ = bi
			}
			for _, B := range Bs {
				for id, st := range A.Impl.PeerState(B.ID).OutgoingState.RequestStates {
					if st == graphsync.Paused {
						_ = A.GS.Unpause(ctx, id)
						any = true
					}
				}
			}
			if !any {
				break
			}
		}
		for _, rq := range reqs {
			if rq != nil {
				select {
				case <-rq.Done():
				case <-time.After(20 * time.Second):
					rq.Cancel()
				}
			}
		}
		snapshot("after all requests ended")
		cancel()
		rep.Eval()
		detail := func() map[string]any {
			return map[string]any{"case": ci, "requests": nreq, "outgoing_workers": wOut, "incoming_workers": wIn, "responders": nresp, "slow_task_start": slowStart, "history": trace, "snapshots": snapshots, "event_log_tail": w.Log.Tail(50)}
		}
		switch {
		case len(viol) > 13 && viol[:13] == "inconclusive:":
			rep.Inconclusive("case %d: %s", ci, viol[13:])
		case viol != "":
			sig := "C23/state-disagrees-with-queue"
			rep.Violation(ci, sig, viol, detail())
		default:
			// end state: no active or pending requests, no allocated memory
			endState := func() string {
				bad := ""
				for _, n := range append([]*GSNode{A}, Bs...) {
					st := n.GS.Stats()
					if st.OutgoingRequests.Active != 0 || st.OutgoingRequests.Pending != 0 || st.IncomingRequests.Active != 0 || st.IncomingRequests.Pending != 0 {
						bad = fmt.Sprintf("%s: after all requests ended Stats reports outgoing %+v incoming %+v", n.Name, st.OutgoingRequests, st.IncomingRequests)
					}
					if st.OutgoingResponses.TotalAllocatedAllPeers != 0 || st.OutgoingResponses.TotalPendingAllocations != 0 {
						bad = fmt.Sprintf("%s: after all requests ended %d bytes are still allocated (%d pending)", n.Name, st.OutgoingResponses.TotalAllocatedAllPeers, st.OutgoingResponses.TotalPendingAllocations)
					}
				}
				return bad
			}
			// (re-evaluated after a window in which nothing at all happened)
			if bad, unstable := w.ConfirmStable(endState, 2*time.Second); unstable != "" {
				rep.Inconclusive("case %d: %s", ci, unstable)
			} else if bad != "" {
				rep.Violation(ci, "C23/end-state-not-zero", bad, detail())
			}
			rep.Nontrivial(rt.Key("c23", ci, len(trace)))
			rep.Count("quiescent_snapshots", int64(snapshots))
			rep.Count("history_steps", int64(len(trace)))
		}
		if ci%61 == 0 {
			dd := detail()
			delete(dd, "event_log_tail")
			rep.Sample(dd)
		}
		pert.Stop()
		for _, g := range gates {
			g.releaseAll()
		}
		w.Close()
	}
	rep.Flush(true)
}

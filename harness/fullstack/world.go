// Package fullstack runs unmodified impl.New GraphSync instances (and scripted
// raw peers) on the in-memory fabric and decides the end-to-end properties
// with monitors over the recorded events and the reference models.
package fullstack

import (
	"context"
	"errors"
	"fmt"
	"sort"
	"sync"
	"sync/atomic"
	"time"

	"github.com/ipfs/go-cid"
	"github.com/ipld/go-ipld-prime"
	"github.com/ipld/go-ipld-prime/datamodel"
	cidlink "github.com/ipld/go-ipld-prime/linking/cid"
	"github.com/ipld/go-ipld-prime/traversal"
	"github.com/libp2p/go-libp2p/core/peer"

	"github.com/ipfs/go-graphsync"
	gsimpl "github.com/ipfs/go-graphsync/impl"
	"github.com/ipfs/go-graphsync/verifhook"

	"verif/harness/fab"
	"verif/harness/gen"
	"verif/harness/mon"
	"verif/harness/ref"
	"verif/harness/store"
)

// HookEvent is one hook/listener invocation.
type HookEvent struct {
	Seq    int64
	Kind   string // request-hook, response-hook, block-hook, outgoing-block-hook, update-hook, completed, cancelled, network-error, block-sent, receiver-error, processing-in, processing-out, outgoing-request-hook
	Peer   peer.ID
	ID     graphsync.RequestID
	Status graphsync.ResponseStatusCode
	Link   string
	Index  int64
	Err    string
	Size   uint64
}

// GSNode is one real GraphSync instance on the fabric.
type GSNode struct {
	W     *World
	Name  string
	Net   *fab.Node
	Store *store.Store
	GS    graphsync.GraphExchange
	Impl  *gsimpl.GraphSync
	ID    peer.ID

	mu     sync.Mutex
	events []HookEvent
	panics []string

	// scenario-settable hook behaviours (nil = default behaviour)
	OnRequest       func(p peer.ID, r graphsync.RequestData, a graphsync.IncomingRequestHookActions)
	OnOutgoingBlock func(p peer.ID, r graphsync.RequestData, b graphsync.BlockData, a graphsync.OutgoingBlockHookActions)
	OnUpdate        func(p peer.ID, r graphsync.RequestData, u graphsync.RequestData, a graphsync.RequestUpdatedHookActions)
	OnResponse      func(p peer.ID, r graphsync.ResponseData, a graphsync.IncomingResponseHookActions)
	OnIncomingBlock func(p peer.ID, r graphsync.ResponseData, b graphsync.BlockData, a graphsync.IncomingBlockHookActions)
	OnOutgoingReq   func(p peer.ID, r graphsync.RequestData, a graphsync.OutgoingRequestHookActions)

	barrierBusy int32
	LoopBlocked int32 // a manager loop did not answer the mailbox barrier
	Workers     uint64
}

func (n *GSNode) rec(e HookEvent) {
	e.Seq = mon.Tick()
	n.mu.Lock()
	n.events = append(n.events, e)
	n.mu.Unlock()
}

// Events returns a snapshot of the hook/listener events.
func (n *GSNode) Events() []HookEvent {
	n.mu.Lock()
	defer n.mu.Unlock()
	return append([]HookEvent(nil), n.events...)
}

// EventsOf filters events by kind.
func (n *GSNode) EventsOf(kind string) []HookEvent {
	var out []HookEvent
	for _, e := range n.Events() {
		if e.Kind == kind {
			out = append(out, e)
		}
	}
	return out
}

// Panics returns the panic-callback invocations.
func (n *GSNode) Panics() []string {
	n.mu.Lock()
	defer n.mu.Unlock()
	return append([]string(nil), n.panics...)
}

// World is one execution: fabric, nodes, monitors.
type World struct {
	Log        *mon.Log
	Fab        *fab.Fabric
	Ctx        context.Context
	cancel     context.CancelFunc
	Nodes      []*GSNode
	Q          *mon.Quiescer
	reqs       []*Req
	mu         sync.Mutex
	retired    map[graphsync.RequestID]int64
	retiredAll map[graphsync.RequestID][]int64
}

// NewWorld creates an empty world.
func NewWorld() *World {
	verifhook.Reset()
	log := &mon.Log{}
	ctx, cancel := context.WithCancel(context.Background())
	w := &World{Log: log, Fab: fab.New(log), Ctx: ctx, cancel: cancel}
	w.Q = &mon.Quiescer{BusyBase: verifhook.BusyCount()}
	w.Q.Preds = append(w.Q.Preds, w.Fab.Idle)
	w.Q.Barrier = w.barrier
	// the request manager reports when it retires a request (earlier than the consumers see the channels close)
	mon.ExtraSink.Store(func(point string, kv ...any) {
		if point == "reqmgr.terminated" && len(kv) > 0 {
			if id, ok := kv[0].(graphsync.RequestID); ok {
				now := mon.Tick()
				w.mu.Lock()
				if w.retired == nil {
					w.retired = map[graphsync.RequestID]int64{}
				}
				if _, dup := w.retired[id]; !dup {
					w.retired[id] = now
				}
				if w.retiredAll == nil {
					w.retiredAll = map[graphsync.RequestID][]int64{}
				}
				w.retiredAll[id] = append(w.retiredAll[id], now)
				w.mu.Unlock()
			}
		}
	})
	w.Q.Stalled = w.Fab.StalledSenders
	return w
}

// NodeOpts configures a GraphSync node.
type NodeOpts struct {
	DefaultValidation bool // keep go-graphsync's default validator as the only validation (no accept-all hook)
	Options           []gsimpl.Option
	Workers           uint64
}

// addGSWithLinkSystem adds a node whose link system is produced by mk (fault injection in codecs / reifiers).
func (w *World) addGSWithLinkSystem(name string, st *store.Store, mk func(*store.Store) ipld.LinkSystem) *GSNode {
	return w.addGS(name, st, NodeOpts{}, mk(st))
}

// AddGS adds a real GraphSync instance with recording hooks and listeners.
func (w *World) AddGS(name string, st *store.Store, o NodeOpts) *GSNode {
	return w.addGS(name, st, o, st.LinkSystem())
}

func (w *World) addGS(name string, st *store.Store, o NodeOpts, lsys ipld.LinkSystem) *GSNode {
	n := &GSNode{W: w, Name: name, Net: w.Fab.AddNode(name), Store: st, Workers: 6}
	n.ID = n.Net.ID
	if o.Workers > 0 {
		n.Workers = o.Workers
	}
	opts := append([]gsimpl.Option{gsimpl.PanicCallback(func(obj any, stack string) {
		mon.Tick()
		n.mu.Lock()
		n.panics = append(n.panics, fmt.Sprint(obj))
		n.mu.Unlock()
	})}, o.Options...)
	gs := gsimpl.New(w.Ctx, n.Net, lsys, opts...)
	n.GS = gs
	n.Impl = gs.(*gsimpl.GraphSync)
	gs.RegisterIncomingRequestHook(func(p peer.ID, r graphsync.RequestData, a graphsync.IncomingRequestHookActions) {
		n.rec(HookEvent{Kind: "request-hook", Peer: p, ID: r.ID()})
		if n.OnRequest != nil {
			n.OnRequest(p, r, a)
			return
		}
		if !o.DefaultValidation {
			a.ValidateRequest()
		}
	})
	gs.RegisterOutgoingBlockHook(func(p peer.ID, r graphsync.RequestData, b graphsync.BlockData, a graphsync.OutgoingBlockHookActions) {
		n.rec(HookEvent{Kind: "outgoing-block-hook", Peer: p, ID: r.ID(), Link: b.Link().String(), Index: b.Index(), Size: b.BlockSizeOnWire()})
		if n.OnOutgoingBlock != nil {
			n.OnOutgoingBlock(p, r, b, a)
		}
	})
	gs.RegisterRequestUpdatedHook(func(p peer.ID, r graphsync.RequestData, u graphsync.RequestData, a graphsync.RequestUpdatedHookActions) {
		n.rec(HookEvent{Kind: "update-hook", Peer: p, ID: r.ID()})
		if n.OnUpdate != nil {
			n.OnUpdate(p, r, u, a)
		}
	})
	gs.RegisterIncomingResponseHook(func(p peer.ID, r graphsync.ResponseData, a graphsync.IncomingResponseHookActions) {
		n.rec(HookEvent{Kind: "response-hook", Peer: p, ID: r.RequestID(), Status: r.Status()})
		if n.OnResponse != nil {
			n.OnResponse(p, r, a)
		}
	})
	gs.RegisterIncomingBlockHook(func(p peer.ID, r graphsync.ResponseData, b graphsync.BlockData, a graphsync.IncomingBlockHookActions) {
		n.rec(HookEvent{Kind: "block-hook", Peer: p, ID: r.RequestID(), Link: b.Link().String(), Index: b.Index(), Size: b.BlockSizeOnWire()})
		if n.OnIncomingBlock != nil {
			n.OnIncomingBlock(p, r, b, a)
		}
	})
	gs.RegisterOutgoingRequestHook(func(p peer.ID, r graphsync.RequestData, a graphsync.OutgoingRequestHookActions) {
		n.rec(HookEvent{Kind: "outgoing-request-hook", Peer: p, ID: r.ID()})
		if n.OnOutgoingReq != nil {
			n.OnOutgoingReq(p, r, a)
		}
	})
	gs.RegisterCompletedResponseListener(func(p peer.ID, r graphsync.RequestData, s graphsync.ResponseStatusCode) {
		n.rec(HookEvent{Kind: "completed", Peer: p, ID: r.ID(), Status: s})
	})
	gs.RegisterRequestorCancelledListener(func(p peer.ID, r graphsync.RequestData) {
		n.rec(HookEvent{Kind: "cancelled", Peer: p, ID: r.ID()})
	})
	gs.RegisterNetworkErrorListener(func(p peer.ID, r graphsync.RequestData, err error) {
		n.rec(HookEvent{Kind: "network-error", Peer: p, ID: r.ID(), Err: fmt.Sprint(err)})
	})
	gs.RegisterReceiverNetworkErrorListener(func(p peer.ID, err error) {
		n.rec(HookEvent{Kind: "receiver-error", Peer: p, Err: fmt.Sprint(err)})
	})
	gs.RegisterBlockSentListener(func(p peer.ID, r graphsync.RequestData, b graphsync.BlockData) {
		n.rec(HookEvent{Kind: "block-sent", Peer: p, ID: r.ID(), Link: b.Link().String(), Index: b.Index(), Size: b.BlockSizeOnWire()})
	})
	gs.RegisterIncomingRequestProcessingListener(func(p peer.ID, r graphsync.RequestData, c int) {
		n.rec(HookEvent{Kind: "processing-in", Peer: p, ID: r.ID(), Index: int64(c)})
	})
	gs.RegisterOutgoingRequestProcessingListener(func(p peer.ID, r graphsync.RequestData, c int) {
		n.rec(HookEvent{Kind: "processing-out", Peer: p, ID: r.ID(), Index: int64(c)})
	})
	w.Nodes = append(w.Nodes, n)
	w.Q.Preds = append(w.Q.Preds, n.pendingIdle)
	return n
}

// pendingIdle: a pending task with a free worker means work is about to start.
func (n *GSNode) pendingIdle() (bool, string) {
	st := n.GS.Stats()
	if st.IncomingRequests.Pending > 0 && st.IncomingRequests.Active < n.Workers {
		return false, n.Name + ": incoming request pending with a free worker"
	}
	if st.OutgoingRequests.Pending > 0 && st.OutgoingRequests.Active < n.Workers {
		return false, n.Name + ": outgoing request pending with a free worker"
	}
	return true, ""
}

// AddRaw adds a scripted raw peer (no GraphSync instance).
func (w *World) AddRaw(name string) *fab.Node { return w.Fab.AddNode(name) }

// barrier does a round trip through both manager loops of every node. A loop
// that does not answer within 250 ms is recorded as blocked and skipped until
// it answers (C25 looks at that flag; quiescence does not depend on it).
func (w *World) barrier() {
	for _, n := range w.Nodes {
		if !atomic.CompareAndSwapInt32(&n.barrierBusy, 0, 1) {
			continue
		}
		done := make(chan struct{})
		go func(n *GSNode) {
			n.Impl.PeerState(n.ID)
			atomic.StoreInt32(&n.barrierBusy, 0)
			atomic.StoreInt32(&n.LoopBlocked, 0)
			close(done)
		}(n)
		select {
		case <-done:
		case <-time.After(250 * time.Millisecond):
			atomic.StoreInt32(&n.LoopBlocked, 1)
		case <-w.Ctx.Done():
		}
	}
}

// Call runs a synchronous API call with a watchdog: some calls only give up with the node's own
// context once the manager has taken the message. false = the call has not returned after 20 s (the
// goroutine stays behind until the world is closed).
func (w *World) Call(f func()) bool {
	done := make(chan struct{})
	go func() { f(); close(done) }()
	select {
	case <-done:
		return true
	case <-time.After(20 * time.Second):
		return false
	}
}

// RetiredAt returns the logical time at which a requestor's request manager retired request id (0 = not yet).
func (w *World) RetiredAt(id graphsync.RequestID) int64 {
	w.mu.Lock()
	defer w.mu.Unlock()
	return w.retired[id]
}

// RetiredAll returns every retirement time of request id (an id can be used for several requests in turn).
func (w *World) RetiredAll(id graphsync.RequestID) []int64 {
	w.mu.Lock()
	defer w.mu.Unlock()
	return append([]int64(nil), w.retiredAll[id]...)
}

// ConfirmStable decides a "nothing more will happen" verdict: cond describes the suspicious state ("" = fine).
// It is a violation only if it still holds after a window in which the system stayed quiescent throughout
// (no event at all); if the suspicious state persists but such a window never occurs (a slow or busy
// system), the verdict is inconclusive.
func (w *World) ConfirmStable(cond func() string, window time.Duration) (violation, inconclusive string) {
	v := cond()
	for try := 0; try < 12 && v != ""; try++ {
		if ok, _ := w.Q.Sustained(window); ok {
			return cond(), ""
		}
		v = cond()
	}
	if v != "" {
		return "", "suspicious state persists but the system never stayed quiet for " + window.String() + ": " + v
	}
	return "", ""
}

// Quiesce waits for (weak) logical quiescence; false = watchdog (inconclusive).
func (w *World) Quiesce() (bool, string) { return w.Q.Await(5, 60*time.Second) }

// Close tears the world down and waits for the internal busy counters to drain.
func (w *World) Close() {
	w.cancel()
	w.Fab.Close()
	for _, r := range w.Reqs() {
		r.Cancel()
	}
	mon.AwaitTeardown(10 * time.Second)
	verifhook.Reset()
}

// ---------------------------------------------------------------- requests and their consumers

// ProgressItem is one delivered ResponseProgress.
type ProgressItem struct {
	Seq       int64
	Path      string
	LastBlock string
	LastPath  string
	Digest    string
}

// ErrItem is one delivered error.
type ErrItem struct {
	Seq int64
	Err error
}

// Req is one outgoing request and what its consumer observed.
type Req struct {
	ID     graphsync.RequestID
	Node   *GSNode
	To     peer.ID
	Root   cid.Cid
	Sel    datamodel.Node
	cancel context.CancelFunc
	Called int64

	mu         sync.Mutex
	progress   []ProgressItem
	errs       []ErrItem
	progClosed int64
	errClosed  int64
	afterClose int
	done       chan struct{}
}

// Reqs returns all requests started in this world.
func (w *World) Reqs() []*Req {
	w.mu.Lock()
	defer w.mu.Unlock()
	return append([]*Req(nil), w.reqs...)
}

// Request starts a request and consumers for both returned channels.
func (w *World) Request(n *GSNode, to peer.ID, root cid.Cid, sel datamodel.Node, exts ...graphsync.ExtensionData) *Req {
	return w.RequestWithID(graphsync.NewRequestID(), n, to, root, sel, exts...)
}

// RequestWithID is Request with a caller-chosen request id.
func (w *World) RequestWithID(id graphsync.RequestID, n *GSNode, to peer.ID, root cid.Cid, sel datamodel.Node, exts ...graphsync.ExtensionData) *Req {
	ctx, cancel := context.WithCancel(context.WithValue(w.Ctx, graphsync.RequestIDContextKey{}, id))
	r := &Req{ID: id, Node: n, To: to, Root: root, Sel: sel, cancel: cancel, done: make(chan struct{})}
	r.Called = w.Log.Add("api-request", n.Name, "id=%s to=%s root=%s", id, w.Fab.NameOf(to), root)
	w.mu.Lock()
	w.reqs = append(w.reqs, r)
	w.mu.Unlock()
	pch, ech := n.GS.Request(ctx, to, cidlink.Link{Cid: root}, sel, exts...)
	w.Log.Add("api-request-returned", n.Name, "id=%s", id)
	var wg sync.WaitGroup
	wg.Add(2)
	go func() {
		defer wg.Done()
		for p := range pch {
			it := ProgressItem{Seq: mon.Tick(), Path: p.Path.String(), Digest: ref.Digest(p.Node)}
			if p.LastBlock.Link != nil {
				it.LastBlock = p.LastBlock.Link.String()
				it.LastPath = p.LastBlock.Path.String()
			}
			r.mu.Lock()
			r.progress = append(r.progress, it)
			r.mu.Unlock()
		}
		s := w.Log.Add("progress-closed", n.Name, "id=%s", id)
		r.mu.Lock()
		r.progClosed = s
		r.mu.Unlock()
	}()
	go func() {
		defer wg.Done()
		for e := range ech {
			r.mu.Lock()
			r.errs = append(r.errs, ErrItem{mon.Tick(), e})
			r.mu.Unlock()
		}
		s := w.Log.Add("errors-closed", n.Name, "id=%s", id)
		r.mu.Lock()
		r.errClosed = s
		r.mu.Unlock()
	}()
	go func() { wg.Wait(); close(r.done) }()
	return r
}

// Cancel cancels the request's context.
func (r *Req) Cancel() { r.cancel() }

// Done is closed when both channels are closed.
func (r *Req) Done() <-chan struct{} { return r.done }

// Closed reports whether both channels have closed.
func (r *Req) Closed() bool {
	select {
	case <-r.done:
		return true
	default:
		return false
	}
}

// Snapshot returns what the consumer saw so far.
func (r *Req) Snapshot() ([]ProgressItem, []ErrItem, int64, int64) {
	r.mu.Lock()
	defer r.mu.Unlock()
	return append([]ProgressItem(nil), r.progress...), append([]ErrItem(nil), r.errs...), r.progClosed, r.errClosed
}

// ---------------------------------------------------------------- outcome comparison (reference model 1)

// Mismatch describes a disagreement with the reference outcome.
type Mismatch struct {
	Sig, What string
	// facts used by known-finding signature predicates
	SpuriousMissing []ref.Load // reported missing although the model resolves it
	LostMissing     []ref.Load
}

// ErrKinds classifies delivered errors.
func ErrKinds(errs []ErrItem) (missing []graphsync.RemoteMissingBlockErr, other []error) {
	for _, e := range errs {
		var m graphsync.RemoteMissingBlockErr
		if errors.As(e.Err, &m) {
			missing = append(missing, m)
		} else {
			other = append(other, e.Err)
		}
	}
	return
}

// CompareOutcome decides C02-style equality between what a request delivered
// and the reference outcome. initial is the requestor store before the request.
func CompareOutcome(prop string, r *Req, out ref.Outcome, st *store.Store) *Mismatch {
	prog, errs, _, _ := r.Snapshot()
	missing, other := ErrKinds(errs)
	if out.RootMissing {
		if len(prog) != 0 {
			return &Mismatch{Sig: prop + "/delivered-nodes-without-root", What: fmt.Sprintf("root resolves to missing but %d nodes were delivered", len(prog))}
		}
		if len(errs) == 0 {
			return &Mismatch{Sig: prop + "/no-error-for-missing-root", What: "root block is available from neither side but no error was reported"}
		}
		for _, e := range other {
			var nf graphsync.RequestFailedContentNotFoundErr
			if errors.As(e, &nf) {
				continue
			}
			if _, ok := e.(traversal.SkipMe); ok {
				continue
			}
			return &Mismatch{Sig: prop + "/unexpected-error", What: fmt.Sprintf("root missing: unexpected error %T %v", e, e)}
		}
		for _, m := range missing {
			if m.Link.(cidlink.Link).Cid != r.Root {
				return &Mismatch{Sig: prop + "/spurious-missing-error", What: fmt.Sprintf("root missing: missing-block error for another link %s", m.Link)}
			}
		}
		return nil
	}
	// missing-block errors: multiset equality on (link, path)
	want := map[string]int{}
	wantLoad := map[string]ref.Load{}
	for _, l := range out.MissingLoads {
		k := l.Link.String() + "|" + l.Path
		want[k]++
		wantLoad[k] = l
	}
	got := map[string]int{}
	for _, m := range missing {
		got[m.Link.String()+"|"+m.Path.String()]++
	}
	mm := &Mismatch{}
	for k, n := range got {
		if n > want[k] {
			// find the model's load for that path
			var ld ref.Load
			for _, l := range out.Loads {
				if l.Link.String()+"|"+l.Path == k {
					ld = l
				}
			}
			mm.SpuriousMissing = append(mm.SpuriousMissing, ld)
			if mm.Sig == "" {
				mm.Sig = prop + "/spurious-missing-error"
				mm.What = fmt.Sprintf("missing-block error for %s (model resolves it as %s; %d reported, %d expected)", k, ld.Source, n, want[k])
			}
		}
	}
	for k, n := range want {
		if got[k] < n {
			mm.LostMissing = append(mm.LostMissing, wantLoad[k])
			if mm.Sig == "" {
				mm.Sig = prop + "/missing-error-not-reported"
				mm.What = fmt.Sprintf("no missing-block error for %s which neither side can supply", k)
			}
		}
	}
	if mm.Sig != "" {
		return mm
	}
	if out.Err == nil && len(other) > 0 {
		return &Mismatch{Sig: prop + "/unexpected-error", What: fmt.Sprintf("unexpected error(s): %v", other)}
	}
	if out.Err != nil && len(other) == 0 {
		return &Mismatch{Sig: prop + "/expected-traversal-error", What: fmt.Sprintf("reference traversal ends with %v but no such error was reported", out.Err)}
	}
	// visits: exact sequence (prefix when the reference traversal itself errors)
	if out.Err == nil && len(prog) != len(out.Visits) {
		return &Mismatch{Sig: prop + "/visit-count", What: fmt.Sprintf("%d nodes delivered, reference traversal visits %d", len(prog), len(out.Visits))}
	}
	for i := range prog {
		if i >= len(out.Visits) {
			return &Mismatch{Sig: prop + "/visit-count", What: fmt.Sprintf("%d nodes delivered, reference traversal visits %d", len(prog), len(out.Visits))}
		}
		v := out.Visits[i]
		p := prog[i]
		if p.Path != v.Path || p.Digest != v.Digest || p.LastBlock != v.LastBlock {
			return &Mismatch{Sig: prop + "/visit-mismatch", What: fmt.Sprintf("visit #%d: delivered (path %q, last block %s, digest %.8s), reference (path %q, last block %s, digest %.8s)", i, p.Path, p.LastBlock, p.Digest, v.Path, v.LastBlock, v.Digest)}
		}
	}
	// every block obtained from the responder is stored locally
	for c := range out.RemoteObtained {
		if !st.Has(c) {
			return &Mismatch{Sig: prop + "/remote-block-not-stored", What: fmt.Sprintf("block %s was supplied by the responder but is not in the requestor store", c)}
		}
	}
	return nil
}

// ---------------------------------------------------------------- cases

// Split classes
var SplitClasses = []string{"all", "none", "random20", "random50", "random80", "prefix", "all-but-subtree", "only-subtree"}

// SplitStore picks the subset of the DAG a peer holds. order is the full traversal load order.
func SplitStore(rng interface{ Intn(int) int }, d *gen.DAG, order []cid.Cid, class string) map[cid.Cid]bool {
	has := map[cid.Cid]bool{}
	uniq := []cid.Cid{}
	seen := map[cid.Cid]bool{}
	for _, c := range order {
		if !seen[c] {
			seen[c] = true
			uniq = append(uniq, c)
		}
	}
	for c := range d.Blocks {
		if !seen[c] {
			seen[c] = true
			uniq = append(uniq, c)
		}
	}
	switch class {
	case "all":
		for c := range d.Blocks {
			has[c] = true
		}
	case "none":
	case "random20", "random50", "random80":
		p := map[string]int{"random20": 20, "random50": 50, "random80": 80}[class]
		for _, c := range uniq {
			if rng.Intn(100) < p {
				has[c] = true
			}
		}
	case "prefix":
		k := rng.Intn(len(uniq) + 1)
		for _, c := range uniq[:k] {
			has[c] = true
		}
	case "all-but-subtree", "only-subtree":
		sub := map[cid.Cid]bool{}
		if len(d.Roots) > 0 {
			root := d.Roots[rng.Intn(len(d.Roots))]
			var walk func(c cid.Cid)
			walk = func(c cid.Cid) {
				if sub[c] {
					return
				}
				sub[c] = true
				for _, l := range gen.LinksOf(c, d.Blocks[c]) {
					walk(l)
				}
			}
			walk(root)
		}
		for c := range d.Blocks {
			if (class == "only-subtree") == sub[c] {
				has[c] = true
			}
		}
	}
	return has
}

// Fill puts the chosen blocks into a store.
func Fill(st *store.Store, d *gen.DAG, has map[cid.Cid]bool) {
	for c := range has {
		st.Put(c, d.Blocks[c])
	}
}

// HasFn adapts a set + DAG to ref.Has.
func HasFn(d *gen.DAG, has map[cid.Cid]bool) ref.Has {
	return func(c cid.Cid) ([]byte, bool) {
		if has[c] {
			return d.Blocks[c], true
		}
		return nil, false
	}
}

// SortedCids renders a cid set.
func SortedCids(m map[cid.Cid]bool) []string {
	var out []string
	for c := range m {
		out = append(out, c.String())
	}
	sort.Strings(out)
	return out
}

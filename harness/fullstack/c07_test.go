package fullstack

import (
	"errors"
	"fmt"
	"testing"

	"github.com/ipfs/go-cid"
	"github.com/ipld/go-ipld-prime/traversal"
	"github.com/libp2p/go-libp2p/core/peer"

	"github.com/ipfs/go-graphsync"
	gsimpl "github.com/ipfs/go-graphsync/impl"

	"verif/harness/rt"
	"verif/harness/store"
)

// TestC07: link budgets cap loaded blocks exactly.
func TestC07(t *testing.T) {
	p := rt.Load()
	rep := rt.NewReporter(p)
	defer rep.Flush(false)
	for _, ci := range p.Cases() {
		r := p.RNG("c07x", ci)
		c := GenCase(p, "c07", ci, "")
		need := int64(len(c.Full.Loads))
		if c.Full.Err != nil || need < 1 {
			continue
		}
		side := []string{"requestor", "responder"}[r.Intn(2)]
		placement := []string{"global", "per-request", "both-global-smaller", "both-request-smaller", "both-equal"}[r.Intn(5)]
		N := []int64{1, 2, need - 1, need, need + 1, 2 * need, 1 + r.Int63n(need+2)}[r.Intn(7)]
		if N < 1 {
			N = 1
		}
		other := N + 1 + r.Int63n(5) // the larger of the two limits when both are set
		var global, perReq uint64
		switch placement {
		case "global":
			global = uint64(N)
		case "per-request":
			perReq = uint64(N)
		case "both-global-smaller":
			global, perReq = uint64(N), uint64(other)
		case "both-request-smaller":
			global, perReq = uint64(other), uint64(N)
		case "both-equal":
			global, perReq = uint64(N), uint64(N)
		}
		// every link must resolve on the enforcing side: responder holds everything;
		// requestor-side enforcement uses any requestor split, responder-side uses an empty requestor
		all := map[cid.Cid]bool{}
		for k := range c.DAG.Blocks {
			all[k] = true
		}
		reqHas := c.ReqHas
		if side == "responder" {
			reqHas = map[cid.Cid]bool{}
		}
		rep.Journal("case %d side=%s placement=%s need=%d N=%d", ci, side, placement, need, N)
		w := NewWorld()
		pert := NewPerturber(c.PertSeed, 1)
		sa := store.New("A.store", w.Log)
		sb := store.New("B.store", w.Log)
		Fill(sa, c.DAG, reqHas)
		Fill(sb, c.DAG, all)
		var aopts, bopts []gsimpl.Option
		if side == "requestor" && global > 0 {
			aopts = append(aopts, gsimpl.MaxLinksPerOutgoingRequests(global))
		}
		if side == "responder" && global > 0 {
			bopts = append(bopts, gsimpl.MaxLinksPerIncomingRequests(global))
		}
		A := w.AddGS("A", sa, NodeOpts{Options: aopts})
		B := w.AddGS("B", sb, NodeOpts{Options: bopts})
		if perReq > 0 {
			if side == "requestor" {
				A.OnOutgoingReq = func(_ peer.ID, _ graphsync.RequestData, a graphsync.OutgoingRequestHookActions) { a.MaxLinks(perReq) }
			} else {
				B.OnRequest = func(_ peer.ID, _ graphsync.RequestData, a graphsync.IncomingRequestHookActions) {
					a.ValidateRequest()
					a.MaxLinks(perReq)
				}
			}
		}
		req := w.Request(A, B.ID, c.DAG.Root, c.Sel)
		hung, inc := AwaitDone(w, req)
		if inc == "" && !hung {
			if ok, why := w.Quiesce(); !ok {
				inc = why
			}
		}
		rep.Eval()
		detail := func() map[string]any {
			d := c.Describe()
			d["side"], d["placement"], d["need"], d["N"], d["global"], d["per_request"] = side, placement, need, N, global, perReq
			_, errs, _, _ := req.Snapshot()
			var es []string
			for _, e := range errs {
				es = append(es, fmt.Sprintf("%T: %.200v", e.Err, e.Err))
			}
			d["errors"] = es
			d["event_log_tail"] = w.Log.Tail(40)
			return d
		}
		switch {
		case inc != "":
			rep.Inconclusive("case %d: %s", ci, inc)
		case hung:
			rep.Violation(ci, "C07/request-never-finished", "system quiescent but the request is still open", detail())
		default:
			_, errs, _, _ := req.Snapshot()
			budgetErr := false
			for _, e := range errs {
				var be *traversal.ErrBudgetExceeded
				if errors.As(e.Err, &be) {
					budgetErr = true
				}
			}
			// loads on the enforcing side, counted at the store boundary
			var loads int64
			if side == "requestor" {
				for _, rd := range sa.Reads() {
					if rd.Hit {
						loads++
					}
				}
				loads += int64(len(sa.Commits()))
			} else {
				for _, rd := range sb.Reads() {
					if rd.Hit {
						loads++
					}
				}
			}
			var failed bool
			var failStatus graphsync.ResponseStatusCode
			if side == "requestor" {
				failed = budgetErr
			} else {
				for _, m := range w.Fab.Wire() {
					if m.From != B.ID {
						continue
					}
					for _, rs := range m.Responses {
						if rs.ID == req.ID && rs.Status.IsTerminal() {
							failStatus = rs.Status
							failed = rs.Status.IsFailure()
						}
					}
				}
			}
			sigN := ""
			if N == 1 {
				sigN = "-n1"
			}
			if loads > N {
				rep.Violation(ci, "C07/over-budget"+sigN, fmt.Sprintf("%s loaded %d blocks under a budget of %d", side, loads, N), detail())
			} else if need <= N && failed {
				rep.Violation(ci, "C07/failed-within-budget"+sigN, fmt.Sprintf("traversal needs %d blocks, budget %d, but the request failed (status %s, budget error %v)", need, N, failStatus, budgetErr), detail())
			} else if need > N && !failed {
				rep.Violation(ci, "C07/no-failure-over-budget"+sigN, fmt.Sprintf("traversal needs %d blocks, budget %d, but the request did not fail", need, N), detail())
			} else if need > N && loads != N {
				rep.Violation(ci, "C07/failed-early"+sigN, fmt.Sprintf("traversal needs %d blocks, budget %d: failed after %d blocks instead of exactly %d", need, N, loads, N), detail())
			} else if need <= N && side == "requestor" {
				exp := c.Full
				_ = exp
			}
			rep.Nontrivial(rt.Key(c.DAG.Root, SelJSON(c.Sel), side, placement, N, SortedCids(reqHas)))
			if need > N {
				rep.Count("over_budget_cases", 1)
			} else {
				rep.Count("within_budget_cases", 1)
			}
			rep.SetAdd("side_placement", side+"/"+placement)
		}
		if ci%97 == 0 {
			rep.Sample(detail())
		}
		pert.Stop()
		w.Close()
	}
	rep.Flush(true)
}

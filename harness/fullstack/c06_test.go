package fullstack

import (
	"context"
	"fmt"
	"os"
	"sync"
	"sync/atomic"
	"testing"
	"time"

	"github.com/ipld/go-ipld-prime/node/basicnode"
	"github.com/libp2p/go-libp2p/core/peer"

	"github.com/ipfs/go-graphsync"

	"verif/harness/fab"
	"verif/harness/ref"
	"verif/harness/rt"
)

var pauseSides = []string{"requestor-api", "requestor-block-hook", "responder-api", "responder-block-hook", "responder-request-hook", "responder-request-hook-unpause-via-update"}

// pausedWindowViolation checks the wire: after a RequestPaused message for id the responder must not
// send metadata or blocks for it until the response is unpaused (unpauseSeq = clock when the
// unpause was requested; 0 = never).
func pausedWindowViolation(wire []*fab.WireMsg, from peer.ID, id graphsync.RequestID, unpauseSeqs []int64) string {
	paused := int64(0)
	for _, m := range wire {
		if m.From != from {
			continue
		}
		for _, rs := range m.Responses {
			if rs.ID != id {
				continue
			}
			if paused != 0 {
				resumed := false
				// a successful unpause issued before this message was sent resumes the response (the
				// RequestPaused message itself may leave the queue after the unpause was already accepted)
				for _, u := range unpauseSeqs {
					if u < m.Seq {
						resumed = true
					}
				}
				if !resumed && (len(rs.Meta) > 0 || len(m.Blocks) > 0) {
					return fmt.Sprintf("message %d carries %d metadata entries / %d blocks for the response although it was paused at %d and not unpaused", m.Seq, len(rs.Meta), len(m.Blocks), paused)
				}
				if resumed {
					paused = 0
				}
			}
			if rs.Status == graphsync.RequestPaused {
				paused = m.Seq
			}
		}
	}
	return ""
}

// TestC06: pausing and resuming an exchange does not change its result.
func TestC06(t *testing.T) {
	p := rt.Load()
	rep := rt.NewReporter(p)
	defer rep.Flush(false)
	for _, ci := range p.Cases() {
		var c *Case
		for k := 0; ; k++ {
			c = GenCase(p, fmt.Sprintf("c06-%d", k), ci, "")
			// stay out of the C02 known-finding classes so that every mismatch is attributable to the pause
			if !samePathTwice(c) && !responderLacksRoot(c) && !c.Exp.AllLocal && !c.Exp.RootMissing && c.Exp.Err == nil && !overshootCandidate(c) && len(c.Exp.Loads) <= 600 {
				break
			}
		}
		r := p.RNG("c06x", ci)
		side := pauseSides[r.Intn(len(pauseSides))]
		if os.Getenv("VERIF_C06_RESPONDER_ONLY") != "" {
			side = pauseSides[2+r.Intn(4)]
		}
		if p.Sub == "reactive" {
			// the requestor answers the RequestPaused status at once with an update whose hook unpauses:
			// the resume travels towards the responder while the pause is still being recorded there
			side = "responder-block-hook-reactive-update-unpause"
		}
		nBlocks := len(c.Exp.Loads)
		k := int64(1 + r.Intn(nBlocks))
		timing := []string{"after-quiescence", "immediately", "after-delay"}[r.Intn(3)]
		delay := time.Duration(r.Intn(2000)) * time.Microsecond
		rep.Journal("case %d side=%s k=%d/%d timing=%s", ci, side, k, nBlocks, timing)
		var pausedOnce int32
		var pauseSeq int64 // logical clock when the pause was decided
		var unpauseSeqs []int64
		var umu sync.Mutex
		pauseCh := make(chan struct{}, 1)
		var x *Exchange
		ctxT, cancelT := context.WithTimeout(context.Background(), 60*time.Second)
		x = RunExchangeAsync(c, 1+ci%2, func(x *Exchange) {
			switch side {
			case "requestor-api":
				x.A.OnIncomingBlock = func(pp peer.ID, rs graphsync.ResponseData, b graphsync.BlockData, a graphsync.IncomingBlockHookActions) {
					if b.Index() == k && atomic.CompareAndSwapInt32(&pausedOnce, 0, 1) {
						id := rs.RequestID()
						atomic.StoreInt64(&pauseSeq, x.W.Log.Add("pause-decided", side, "block=%d", k))
						go func() {
							_ = x.A.GS.Pause(ctxT, id)
							pauseCh <- struct{}{}
						}()
					}
				}
			case "requestor-block-hook":
				x.A.OnIncomingBlock = func(pp peer.ID, rs graphsync.ResponseData, b graphsync.BlockData, a graphsync.IncomingBlockHookActions) {
					if b.Index() == k && atomic.CompareAndSwapInt32(&pausedOnce, 0, 1) {
						atomic.StoreInt64(&pauseSeq, x.W.Log.Add("pause-decided", side, "block=%d", k))
						a.PauseRequest()
						pauseCh <- struct{}{}
					}
				}
			case "responder-api":
				x.B.OnOutgoingBlock = func(pp peer.ID, rq graphsync.RequestData, b graphsync.BlockData, a graphsync.OutgoingBlockHookActions) {
					if b.Index() >= k && atomic.CompareAndSwapInt32(&pausedOnce, 0, 1) {
						id := rq.ID()
						go func() {
							_ = x.B.GS.Pause(ctxT, id)
							pauseCh <- struct{}{}
						}()
					}
				}
			case "responder-block-hook":
				x.B.OnOutgoingBlock = func(pp peer.ID, rq graphsync.RequestData, b graphsync.BlockData, a graphsync.OutgoingBlockHookActions) {
					if b.Index() >= k && atomic.CompareAndSwapInt32(&pausedOnce, 0, 1) {
						a.PauseResponse()
						pauseCh <- struct{}{}
					}
				}
			case "responder-block-hook-reactive-update-unpause":
				if r.Intn(2) == 0 {
					x.Pert.Pin("qe.beforeFinishTask", time.Duration(1+r.Intn(5))*time.Millisecond)
				}
				x.B.OnOutgoingBlock = func(pp peer.ID, rq graphsync.RequestData, b graphsync.BlockData, a graphsync.OutgoingBlockHookActions) {
					if b.Index() >= k && atomic.CompareAndSwapInt32(&pausedOnce, 0, 1) {
						a.PauseResponse()
						pauseCh <- struct{}{}
					}
				}
				x.A.OnResponse = func(pp peer.ID, rs graphsync.ResponseData, a graphsync.IncomingResponseHookActions) {
					if rs.Status() == graphsync.RequestPaused {
						a.UpdateRequestWithExtensions(graphsync.ExtensionData{Name: verifExt, Data: basicnode.NewString("unpause")})
					}
				}
				x.B.OnUpdate = func(pp peer.ID, rq graphsync.RequestData, u graphsync.RequestData, a graphsync.RequestUpdatedHookActions) {
					if d, ok := u.Extension(verifExt); ok && d != nil {
						if s, _ := d.AsString(); s == "unpause" {
							umu.Lock()
							unpauseSeqs = append(unpauseSeqs, x.W.Log.Add("update-hook-unpause", side, ""))
							umu.Unlock()
							a.UnpauseResponse()
						}
					}
				}
			case "responder-request-hook", "responder-request-hook-unpause-via-update":
				x.B.OnRequest = func(pp peer.ID, rq graphsync.RequestData, a graphsync.IncomingRequestHookActions) {
					a.ValidateRequest()
					if atomic.CompareAndSwapInt32(&pausedOnce, 0, 1) {
						a.PauseResponse()
						pauseCh <- struct{}{}
					}
				}
				x.B.OnUpdate = func(pp peer.ID, rq graphsync.RequestData, u graphsync.RequestData, a graphsync.RequestUpdatedHookActions) {
					if d, ok := u.Extension(verifExt); ok && d != nil {
						if s, _ := d.AsString(); s == "unpause" {
							a.UnpauseResponse()
						}
					}
				}
			}
		})
		inc := ""
		paused := false
		select {
		case <-pauseCh:
			paused = true
		case <-x.Req.Done():
		case <-ctxT.Done():
			inc = "pause point never reached and request not finished"
		}
		resumeAttempts := 0
		if paused && side != "responder-block-hook-reactive-update-unpause" {
			switch timing {
			case "after-quiescence":
				if ok, why := x.W.Quiesce(); !ok {
					inc = why
				}
			case "after-delay":
				time.Sleep(delay)
			}
			// resume; a pause request may not have taken effect yet ("request is not paused"): retry until it does or the request ends
			for inc == "" {
				resumeAttempts++
				useq := x.W.Log.Add("api-unpause", side, "attempt=%d", resumeAttempts)
				var err error
				switch side {
				case "requestor-api", "requestor-block-hook":
					err = x.A.GS.Unpause(ctxT, x.Req.ID)
				case "responder-request-hook-unpause-via-update":
					err = x.A.GS.SendUpdate(ctxT, x.Req.ID, graphsync.ExtensionData{Name: verifExt, Data: basicnode.NewString("unpause")})
				default:
					err = x.B.GS.Unpause(ctxT, x.Req.ID)
				}
				if err == nil {
					umu.Lock()
					unpauseSeqs = append(unpauseSeqs, useq)
					umu.Unlock()
				}
				if err == nil || x.Req.Closed() {
					break
				}
				if ctxT.Err() != nil {
					inc = "could not resume within the watchdog: " + err.Error()
					break
				}
				time.Sleep(200 * time.Microsecond)
				if resumeAttempts > 20000 {
					inc = "resume kept failing: " + err.Error()
				}
			}
		}
		hung := false
		if inc == "" {
			hung, inc = AwaitDone(x.W, x.Req)
		}
		if inc == "" && !hung {
			if ok, why := x.W.Quiesce(); !ok {
				inc = why
			}
		}
		cancelT()
		rep.Eval()
		wire := x.W.Fab.Wire()
		detail := func() map[string]any {
			d := c.Detail()
			d["pause_side"], d["pause_at_block"], d["resume_timing"], d["resume_attempts"], d["paused"] = side, k, timing, resumeAttempts, paused
			prog, errs, _, _ := x.Req.Snapshot()
			var es []string
			for _, e := range errs {
				es = append(es, fmt.Sprintf("%T: %.200v", e.Err, e.Err))
			}
			d["delivered_nodes"], d["errors"] = len(prog), es
			d["pause_seq"] = atomic.LoadInt64(&pauseSeq)
			var wl []string
			for _, m := range wire {
				if m.From == x.B.ID {
					for _, rs := range m.Responses {
						ent := ""
						for _, e := range rs.Meta {
							s := e.Link.String()
							ent += s[len(s)-6:] + ":" + string(e.Action)[:1] + " "
						}
						bl := ""
						for bc := range m.Blocks {
							s := bc.String()
							bl += s[len(s)-6:] + " "
						}
						wl = append(wl, fmt.Sprintf("seq=%d delivered=%d status=%s meta=[%s] blocks=[%s]", m.Seq, m.Delivered, rs.Status, ent, bl))
					}
				}
			}
			d["wire_responder_to_requestor"] = wl
			d["re_request_before_drained"] = reRequestBeforeDrained(wire, x, x.Req.ID)
			d["stream_ahead_at_pause"] = streamAheadAtPause(wire, x, c, x.Req.ID, atomic.LoadInt64(&pauseSeq), k)
			d["event_log_tail"] = x.W.Log.Tail(80)
			return d
		}
		switch {
		case inc != "":
			rep.Inconclusive("case %d: %s", ci, inc)
		case hung:
			sig := "C06/request-never-finished/" + side
			if (side == "requestor-api" || side == "requestor-block-hook") && reRequestBeforeDrained(wire, x, x.Req.ID) {
				// recorded finding, second symptom: the re-request reached the responder while the old
				// execution for the same id was still being retired there and was swallowed with it
				sig = "C06/requestor-resume-before-old-exchange-drained"
			}
			rep.Violation(ci, sig, "system quiescent after the resume but the request is still open", detail())
		default:
			// known-finding predicate, from wire and listener events only
			notDrained := false
			resumeOvershoot := false
			if side == "requestor-api" || side == "requestor-block-hook" {
				// the pause takes effect when the executor hands the request back, which is when the
				// requestor emits its (first) Cancel: evaluate the stream-ahead predicate at that point,
				// with the number of blocks the traversal had really loaded by then
				effSeq, effK := atomic.LoadInt64(&pauseSeq), k
				for _, m := range wire {
					if m.From != x.A.ID || effSeq == 0 || m.Seq < effSeq {
						continue
					}
					isCancel := false
					for _, rq := range m.Requests {
						if rq.ID == x.Req.ID && rq.Type == graphsync.RequestTypeCancel {
							isCancel = true
						}
					}
					if isCancel {
						effSeq = m.Seq
						effK = 0
						for _, e := range x.A.Events() {
							if e.Kind == "block-hook" && e.ID == x.Req.ID && e.Seq < effSeq {
								effK++
							}
						}
						break
					}
				}
				notDrained = reRequestBeforeDrained(wire, x, x.Req.ID) || streamAheadAtPause(wire, x, c, x.Req.ID, effSeq, effK)
				// the resume tells the responder to skip as many blocks as the requestor has traversed; loads the
				// responder's own traversal never performs (below a link it lacks) make that count too large
				// (the recorded C02 finding skip-overshoot, reached through a resume)
				for i := 0; i < int(effK) && i < len(c.Exp.Loads); i++ {
					if !c.Exp.Loads[i].RespReach {
						resumeOvershoot = true
					}
				}
			}
			if mm := CompareOutcome("C06", x.Req, c.Exp, x.A.Store); mm != nil {
				sig := "C06/result-changed/" + side
				if notDrained {
					sig = "C06/requestor-resume-before-old-exchange-drained"
				} else if resumeOvershoot {
					sig = "C06/requestor-resume-skip-overshoot"
				}
				rep.Violation(ci, sig, fmt.Sprintf("paused at block %d via %s, resumed %s: %s", k, side, timing, mm.What), detail())
			}
			if side != "requestor-api" && side != "requestor-block-hook" {
				umu.Lock()
				us := append([]int64(nil), unpauseSeqs...)
				umu.Unlock()
				if v := pausedWindowViolation(wire, x.B.ID, x.Req.ID, us); v != "" {
					rep.Violation(ci, "C06/data-sent-while-paused", v, detail())
				}
			}
			if paused {
				rep.Nontrivial(rt.Key(c.DAG.Root, SelJSON(c.Sel), SortedCids(c.ReqHas), SortedCids(c.RespHas), side, k, timing))
				rep.SetAdd("side_x_timing", side+"/"+timing)
				rep.Count("pauses_that_took_place", 1)
				if notDrained {
					rep.Count("requestor_resumes_before_old_exchange_drained", 1)
				}
			}
		}
		if ci%97 == 0 {
			s := c.Describe()
			s["pause_side"], s["pause_at_block"], s["resume_timing"] = side, k, timing
			rep.Sample(s)
		}
		x.Finish()
	}
	rep.Flush(true)
}

// overshootCandidate: the C02/skip-overshoot class is possible for this case.
func overshootCandidate(c *Case) bool {
	respAlso := 0
	for i, l := range c.Exp.Loads {
		if i < c.Exp.LocalBeforeFirstMiss && l.RespReach {
			respAlso++
		}
	}
	return c.Exp.LocalBeforeFirstMiss > respAlso
}

// reRequestBeforeDrained: when the requestor emitted a re-request (second and later New
// for the id) the pre-pause exchange was not yet drained: some responder->requestor message for
// the id was still undelivered, or was emitted by the old execution afterwards (before the
// re-request reached the responder), or the responder had not yet reported the old response cancelled.
func reRequestBeforeDrained(wire []*fab.WireMsg, x *Exchange, id graphsync.RequestID) bool {
	n := 0
	for _, m := range wire {
		if m.From != x.A.ID {
			continue
		}
		for _, rq := range m.Requests {
			if rq.ID != id || rq.Type != graphsync.RequestTypeNew {
				continue
			}
			n++
			if n < 2 {
				continue
			}
			tRe, tReDelivered := m.Seq, m.Delivered
			for _, b := range wire {
				if b.From != x.B.ID {
					continue
				}
				for _, rs := range b.Responses {
					if rs.ID != id {
						continue
					}
					if b.Seq < tRe && (b.Delivered == 0 || b.Delivered > tRe) {
						return true // in flight when the re-request was emitted
					}
					if b.Seq > tRe && (tReDelivered == 0 || b.Seq < tReDelivered) {
						return true // old execution still emitting
					}
				}
			}
			// the responder must have retired the old response (cancelled listener) before the re-request arrived
			cancels := 0
			for _, e := range x.B.Events() {
				if e.Kind == "cancelled" && e.ID == id && (tReDelivered == 0 || e.Seq < tReDelivered) {
					cancels++
				}
			}
			if cancels < n-1 {
				return true
			}
		}
	}
	return false
}

// streamAheadAtPause: when the requestor decided to pause after its k-th loaded block, the
// responder's stream was ahead of the requestor's traversal: the responder had already emitted
// more metadata entries for the id than the requestor's traversal had consumed (they stay queued in
// the requestor, or are in flight). Consumption is computed from the reference load list: the
// requestor consumes one entry for every load that the responder's own traversal also performs.
func streamAheadAtPause(wire []*fab.WireMsg, x *Exchange, c *Case, id graphsync.RequestID, pauseSeq int64, k int64) bool {
	if pauseSeq == 0 {
		return false
	}
	var entries int64
	for _, b := range wire {
		if b.From != x.B.ID || b.Seq > pauseSeq {
			continue
		}
		for _, rs := range b.Responses {
			if rs.ID == id {
				entries += int64(len(rs.Meta))
			}
		}
	}
	var loaded, consumed int64
	for _, l := range c.Exp.Loads {
		if l.RespReach {
			consumed++
		}
		if l.Source != ref.Missing {
			loaded++
			if loaded == k {
				break
			}
		}
	}
	return entries > consumed
}

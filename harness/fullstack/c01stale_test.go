package fullstack

import (
	"fmt"
	"sync/atomic"
	"testing"

	"github.com/ipfs/go-cid"
	"github.com/libp2p/go-libp2p/core/peer"

	"github.com/ipfs/go-graphsync"
	gsmsg "github.com/ipfs/go-graphsync/message"

	"verif/harness/gen"
	"verif/harness/rt"
	"verif/harness/store"
)

// TestC01Stale: block data that arrives for a request whose loader is offline (the request is
// paused on the requestor) must never surface later under another link. Phase 1 parks a request
// and lets a scripted responder keep streaming blocks at it; phase 2 runs a second request whose
// response names links without carrying their data. Whatever is then stored must hash to its link.
func TestC01Stale(t *testing.T) {
	p := rt.Load()
	rep := rt.NewReporter(p)
	defer rep.Flush(false)
	for _, ci := range p.Cases() {
		r := p.RNG("c01s", ci)
		n1, n2 := 4+r.Intn(8), 4+r.Intn(12)
		d1 := gen.FlatDAG(r, n1, 40+r.Intn(200), fmt.Sprintf("c01s-a-%d", ci))
		d2 := gen.FlatDAG(r, n2, 40+r.Intn(200), fmt.Sprintf("c01s-b-%d", ci))
		foreign := gen.FlatDAG(r, 6+r.Intn(20), 40+r.Intn(300), fmt.Sprintf("c01s-f-%d", ci))
		pauseAt := int64(1 + r.Intn(3))
		rep.Journal("case %d n1=%d n2=%d pauseAt=%d", ci, n1, n2, pauseAt)
		w := NewWorld()
		sa := store.New("A.store", w.Log)
		A := w.AddGS("A", sa, NodeOpts{})
		R := w.AddRaw("R")
		var id1 graphsync.RequestID
		var pausedFlag int32
		A.OnIncomingBlock = func(pp peer.ID, rs graphsync.ResponseData, b graphsync.BlockData, a graphsync.IncomingBlockHookActions) {
			if rs.RequestID() == id1 && b.Index() == pauseAt && atomic.CompareAndSwapInt32(&pausedFlag, 0, 1) {
				a.PauseRequest()
			}
		}
		id1 = graphsync.NewRequestID()
		req1 := w.RequestWithID(id1, A, R.ID, d1.Root, gen.AllSelector())
		inc := ""
		q := func(where string) {
			if inc == "" {
				if ok, why := w.Quiesce(); !ok {
					inc = where + ": " + why
				}
			}
		}
		q("request 1 sent")
		// first message: root and the first leaves, with data
		send := func(id graphsync.RequestID, st graphsync.ResponseStatusCode, links []cid.Cid, src map[cid.Cid][]byte, withData bool) {
			var md []gsmsg.GraphSyncLinkMetadatum
			blks := map[cid.Cid][]byte{}
			for _, k := range links {
				md = append(md, gsmsg.GraphSyncLinkMetadatum{Link: k, Action: graphsync.LinkActionPresent})
				if withData {
					blks[k] = src[k]
				}
			}
			_ = RawSendResponse(R, A.ID, []gsmsg.GraphSyncResponse{gsmsg.NewResponse(id, st, md)}, blks)
		}
		first := append([]cid.Cid{d1.Root}, d1.Order[:int(pauseAt)+1]...)
		send(id1, graphsync.PartialResponse, first, d1.Blocks, true)
		q("first message")
		paused := atomic.LoadInt32(&pausedFlag) == 1
		// while request 1 is parked: the responder keeps streaming, partly the rest of the DAG, partly foreign blocks
		late := 0
		for m := 0; m < 1+r.Intn(4) && inc == ""; m++ {
			var links []cid.Cid
			src := map[cid.Cid][]byte{}
			for j := 0; j < 3+r.Intn(8); j++ {
				if r.Intn(2) == 0 {
					k := foreign.Order[r.Intn(len(foreign.Order))]
					links, src[k] = append(links, k), foreign.Blocks[k]
				} else {
					k := d1.Order[r.Intn(len(d1.Order)-1)]
					links, src[k] = append(links, k), d1.Blocks[k]
				}
			}
			send(id1, graphsync.PartialResponse, links, src, true)
			late += len(links)
		}
		q("late blocks")
		// second request: links named, data withheld ("you have it already")
		req2 := w.Request(A, R.ID, d2.Root, gen.AllSelector())
		q("request 2 sent")
		send(req2.ID, graphsync.PartialResponse, []cid.Cid{d2.Root}, d2.Blocks, true)
		for i := 0; i < len(d2.Order)-1; {
			k := 1 + r.Intn(4)
			if i+k > len(d2.Order)-1 {
				k = len(d2.Order) - 1 - i
			}
			send(req2.ID, graphsync.PartialResponse, d2.Order[i:i+k], nil, false)
			i += k
		}
		send(req2.ID, graphsync.RequestCompletedPartial, nil, nil, false)
		q("request 2 answered")
		if inc == "" {
			if st := AwaitDoneOrIdle(w, req2, 500*1000*1000); st == "inconclusive" {
				inc = "request 2 neither finished nor quiescent"
			}
		}
		req1.Cancel()
		req2.Cancel()
		q("teardown")
		rep.Eval()
		detail := map[string]any{"case": ci, "leaves_request_1": n1, "leaves_request_2": n2, "request_1_paused_at_block": pauseAt, "request_1_paused": paused,
			"blocks_streamed_while_paused": late, "event_log_tail": w.Log.Tail(50)}
		if inc != "" {
			rep.Inconclusive("case %d: %s", ci, inc)
		} else {
			known := map[cid.Cid][]byte{}
			for _, d := range []*gen.DAG{d1, d2, foreign} {
				for k, b := range d.Blocks {
					known[k] = b
				}
			}
			for _, cm := range sa.Commits() {
				if !cm.HashOK {
					rep.Violation(ci, "C01/stored-bytes-do-not-hash-to-link", fmt.Sprintf("commit #%d stored %d bytes under %s which do not hash to it (request 2 was only told the link is present, no data was sent for it)", cm.N, cm.Size, cm.Link), detail)
					break
				}
				if _, ok := d2.Blocks[cm.Link]; ok && cm.Link != d2.Root {
					rep.Violation(ci, "C01/stored-block-never-sent", fmt.Sprintf("commit #%d stored %s for request 2 although no data was ever sent for that link", cm.N, cm.Link), detail)
					break
				}
			}
			prog2, _, _, _ := req2.Snapshot()
			if len(prog2) > 1+0 {
				// only the root was supplied: every delivered node beyond the root list itself would come from data never sent
				for _, pi := range prog2 {
					if pi.Path != "" && pi.LastBlock != d2.Root.String() {
						rep.Violation(ci, "C01/delivered-node-from-unsent-data", fmt.Sprintf("request 2 delivered a node at %q loaded from block %s, whose data was never sent", pi.Path, pi.LastBlock), detail)
						break
					}
				}
			}
			if paused && late > 0 {
				rep.Nontrivial(rt.Key("c01s", ci, n1, n2, late))
				rep.Count("blocks_streamed_at_a_paused_request", int64(late))
				rep.Count("links_named_without_data", int64(len(d2.Order)-1))
			}
		}
		if ci%101 == 0 {
			delete(detail, "event_log_tail")
			rep.Sample(detail)
		}
		w.Close()
	}
	rep.Flush(true)
}

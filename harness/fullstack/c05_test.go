package fullstack

import (
	"context"
	"errors"
	"fmt"
	"sync/atomic"
	"testing"
	"time"

	"github.com/ipfs/go-cid"
	"github.com/ipld/go-ipld-prime/node/basicnode"
	"github.com/libp2p/go-libp2p/core/peer"

	"github.com/ipfs/go-graphsync"
	gsimpl "github.com/ipfs/go-graphsync/impl"
	gsmsg "github.com/ipfs/go-graphsync/message"

	"verif/harness/fab"
	"verif/harness/gen"
	"verif/harness/mon"
	"verif/harness/ref"
	"verif/harness/rt"
	"verif/harness/store"
)

// TestC05: every incoming request is eventually fully retired by the responder.
func TestC05(t *testing.T) {
	p := rt.Load()
	rep := rt.NewReporter(p)
	defer rep.Flush(false)
	for _, ci := range p.Cases() {
		r := p.RNG("c05", ci)
		d := gen.GenDAG(r, gen.DagOpts{MinBlocks: 3, MaxBlocks: 3 + r.Intn(12), Salt: fmt.Sprintf("c05-%d", ci), BigBlockP: 10})
		sel := gen.AllSelector()
		has := map[cid.Cid]bool{}
		for k := range d.Blocks {
			if r.Intn(8) != 0 {
				has[k] = true
			}
		}
		rr := ref.SingleStore(d.Root, sel, HasFn(d, has), 0)
		if rr.Err != nil || len(rr.Loads) > 500 {
			continue
		}
		hook := []string{"validate", "validate", "validate", "reject", "terminate", "pause"}[r.Intn(6)]
		reqMsg := []string{"none", "none", "cancel", "update"}[r.Intn(4)]
		api := []string{"none", "none", "pause-unpause", "pause-cancel", "cancel", "send-update"}[r.Intn(6)]
		fault := []string{"none", "none", "none", "send-once", "send-exhaust", "connect"}[r.Intn(6)]
		j := 1 + r.Intn(4)
		k := int64(1 + r.Intn(len(rr.Loads)+1))
		nreq := 1 + r.Intn(2)
		rep.Journal("case %d hook=%s reqmsg=%s api=%s fault=%s j=%d k=%d loads=%d nreq=%d", ci, hook, reqMsg, api, fault, j, k, len(rr.Loads), nreq)

		w := NewWorld()
		exits0 := mon.QueueExits()
		pert := NewPerturber(r.Int63(), 1)
		ss := store.New("S.store", w.Log)
		Fill(ss, d, has)
		opts := []gsimpl.Option{gsimpl.MessageSendRetries(2)}
		S := w.AddGS("S", ss, NodeOpts{Options: opts})
		R := w.AddRaw("R")
		link := w.Fab.Link(S.ID, R.ID)
		link.Delay = pert.LinkDelay()
		var sendFails int32
		switch fault {
		case "send-once":
			link.SendErr = func(n int, m gsmsg.GraphSyncMessage) error {
				if n == j {
					atomic.AddInt32(&sendFails, 1)
					return fab.ErrInjected
				}
				return nil
			}
		case "send-exhaust":
			link.SendErr = func(n int, m gsmsg.GraphSyncMessage) error {
				if n >= j && n < j+2 {
					atomic.AddInt32(&sendFails, 1)
					return fab.ErrInjected
				}
				return nil
			}
		case "connect":
			S.Net.ConnectErr = func(to peer.ID, n int) error {
				if n == 0 {
					atomic.AddInt32(&sendFails, 1)
					return fab.ErrInjected
				}
				return nil
			}
		}
		ids := make([]graphsync.RequestID, nreq)
		for i := range ids {
			ids[i] = graphsync.NewRequestID()
		}
		S.OnRequest = func(pp peer.ID, rq graphsync.RequestData, a graphsync.IncomingRequestHookActions) {
			switch hook {
			case "validate":
				a.ValidateRequest()
			case "reject":
			case "terminate":
				a.ValidateRequest()
				a.TerminateWithError(errors.New("verif: no"))
			case "pause":
				a.ValidateRequest()
				a.PauseResponse()
			}
		}
		S.OnUpdate = func(pp peer.ID, rq graphsync.RequestData, u graphsync.RequestData, a graphsync.RequestUpdatedHookActions) {
			if dd, ok := u.Extension(verifExt); ok && dd != nil {
				if s, _ := dd.AsString(); s == "bad" {
					a.TerminateWithError(errors.New("verif: bad update"))
				} else {
					a.SendExtensionData(graphsync.ExtensionData{Name: verifExt, Data: basicnode.NewString("ack")})
				}
			}
		}
		atK := make(chan graphsync.RequestID, 8)
		S.OnOutgoingBlock = func(pp peer.ID, rq graphsync.RequestData, b graphsync.BlockData, a graphsync.OutgoingBlockHookActions) {
			if b.Index() == k && rq.ID() == ids[0] {
				select {
				case atK <- rq.ID():
				default:
				}
			}
		}
		// requestor message after the j-th response message was delivered
		nd := 0
		var sentReqMsg int32
		link.AfterDeliver = func(*fab.WireMsg) {
			nd++
			if nd == j && reqMsg != "none" && atomic.CompareAndSwapInt32(&sentReqMsg, 0, 1) {
				switch reqMsg {
				case "cancel":
					_ = RawSend(R, S.ID, gsmsg.NewCancelRequest(ids[0]))
				case "update":
					v := []string{"hello", "bad"}[r.Intn(2)]
					_ = RawSend(R, S.ID, gsmsg.NewUpdateRequest(ids[0], graphsync.ExtensionData{Name: verifExt, Data: basicnode.NewString(v)}))
				}
			}
		}
		for _, id := range ids {
			_ = RawSend(R, S.ID, NewReq(id, d.Root, sel))
		}
		inc := ""
		apiCtx, apiCancel := context.WithTimeout(context.Background(), 60*time.Second)
		// responder API at block k of the first request
		if api != "none" {
			select {
			case id := <-atK:
				switch api {
				case "pause-unpause", "pause-cancel":
					_ = S.GS.Pause(apiCtx, id)
				case "cancel":
					_ = S.GS.Cancel(apiCtx, id)
				case "send-update":
					_ = S.GS.SendUpdate(apiCtx, id, graphsync.ExtensionData{Name: verifExt, Data: basicnode.NewString("from-responder")})
				}
			case <-time.After(300 * time.Millisecond):
				// block k never sent (rejected, paused at start, finished early): the API is exercised on whatever state exists
				switch api {
				case "cancel", "pause-cancel":
					_ = S.GS.Cancel(apiCtx, ids[0])
				case "send-update":
					_ = S.GS.SendUpdate(apiCtx, ids[0], graphsync.ExtensionData{Name: verifExt, Data: basicnode.NewString("from-responder")})
				}
			}
		}
		// drive every paused response to its end (the property assumes paused responses are eventually unpaused or cancelled)
		settled := 0
		for round := 0; round < 12 && inc == ""; round++ {
			if ok, why := w.Quiesce(); !ok {
				inc = why
				break
			}
			st := S.Impl.PeerState(R.ID).IncomingState.RequestStates
			progressed := false
			for _, id := range ids {
				if st[id] == graphsync.Paused {
					if api == "pause-cancel" || r.Intn(3) == 0 {
						_ = S.GS.Cancel(apiCtx, id)
					} else {
						_ = S.GS.Unpause(apiCtx, id)
					}
					progressed = true
				}
			}
			if !progressed {
				// a pause that was requested may only take effect a little later (the weak quiescent point can
				// fall into a lull of the traversal): stop only after a window in which nothing happened at all
				if ok, _ := w.Q.Sustained(400 * time.Millisecond); ok {
					settled++
					if settled >= 1 {
						st := S.Impl.PeerState(R.ID).IncomingState.RequestStates
						again := false
						for _, id := range ids {
							if st[id] == graphsync.Paused {
								again = true
							}
						}
						if !again {
							break
						}
					}
				}
			}
		}
		apiCancel()
		if inc == "" {
			if ok, why := w.Quiesce(); !ok {
				inc = why
			}
		}
		rep.Eval()
		detail := func() map[string]any {
			var evs []string
			for _, e := range S.Events() {
				if e.Kind == "completed" || e.Kind == "cancelled" || e.Kind == "network-error" {
					evs = append(evs, fmt.Sprintf("%d %s id=%s status=%s err=%s", e.Seq, e.Kind, e.ID.String()[:8], e.Status, e.Err))
				}
			}
			return map[string]any{"case": ci, "hook": hook, "requestor_message": reqMsg, "responder_api": api, "fault": fault, "j": j, "k": k, "requests": nreq, "responder_loads": len(rr.Loads),
				"peer_state": fmt.Sprintf("%v", S.Impl.PeerState(R.ID).IncomingState), "stats": fmt.Sprintf("%+v", S.GS.Stats().IncomingRequests),
				"outcome_events": evs, "protect_outstanding": S.Net.CM.Outstanding(), "event_log_tail": w.Log.Tail(400)}
		}
		if inc != "" {
			rep.Inconclusive("case %d: %s", ci, inc)
		} else {
			decide := func() (string, string) {
				st := S.Impl.PeerState(R.ID).IncomingState
				for i, id := range ids {
					comp, canc, nerr := 0, 0, 0
					var compStatus graphsync.ResponseStatusCode
					for _, e := range S.Events() {
						if e.ID != id {
							continue
						}
						switch e.Kind {
						case "completed":
							comp++
							compStatus = e.Status
						case "cancelled":
							canc++
						case "network-error":
							nerr++
						}
					}
					tag := fmt.Sprintf("request %d (%s)", i, id.String()[:8])
					if comp > 1 {
						return "C05/completed-twice", tag + " was reported completed more than once"
					}
					if canc > 1 {
						return "C05/cancelled-twice", tag + " was reported cancelled more than once"
					}
					if comp > 0 && canc > 0 {
						return "C05/completed-and-cancelled", tag + " was reported both completed and cancelled"
					}
					if comp+canc+nerr == 0 {
						return "C05/no-outcome", tag + " reached none of the outcomes completed / cancelled / network-error although the responder is quiescent"
					}
					if fault == "none" && nerr > 0 {
						return "C05/network-error-without-fault", tag + " was reported as a network error although no send fault was injected"
					}
					if fault == "none" && comp+canc != 1 {
						return "C05/not-exactly-one-outcome", fmt.Sprintf("%s: completed=%d cancelled=%d without any fault", tag, comp, canc)
					}
					if comp == 1 {
						v := ViewOf(R, S.ID, id)
						if v.HasTerm && v.Terminal != compStatus {
							return "C05/completed-status-differs-from-wire", fmt.Sprintf("%s: completed listener got %s, terminal status on the wire is %s", tag, compStatus, v.Terminal)
						}
					}
					if _, listed := st.RequestStates[id]; listed {
						return "C05/state-left-behind", fmt.Sprintf("%s is still listed in the peer's request states (%s) after its outcome was reported", tag, st.RequestStates[id])
					}
					for key, n := range S.Net.CM.Outstanding() {
						if len(key) > len(id.Tag()) && key[len(key)-len(id.Tag()):] == id.Tag() || (len(key) > 21 && containsStr(key, id.Tag())) {
							return "C05/connection-protection-not-released", fmt.Sprintf("%s: Protect/Unprotect unbalanced for its tag (%s: %d)", tag, key[len(key)-min(len(key), 60):], n)
						}
					}
				}
				stats := S.GS.Stats().IncomingRequests
				if stats.Active != 0 || stats.Pending != 0 {
					return "C05/task-left-behind", fmt.Sprintf("incoming request queue still reports active=%d pending=%d", stats.Active, stats.Pending)
				}
				return "", ""
			}
			// bounded liveness: a violation only if it still holds after a sustained quiescent window
			sig, what := "", ""
			_, unstable := w.ConfirmStable(func() string {
				sig, what = decide()
				return sig
			}, 3*time.Second)
			if unstable != "" {
				rep.Inconclusive("case %d: %s", ci, unstable)
				sig = ""
			}
			if sig != "" {
				// known-finding predicate (hook events): one of the responder's message queues shut itself down during the
				// case (send / connect failure) - response data queued into the dying queue is never sent or reported,
				// so the request is never retired
				if mon.QueueExits() > exits0 && fault != "none" && (sig == "C05/no-outcome" || sig == "C05/state-left-behind" || sig == "C05/connection-protection-not-released" || sig == "C05/task-left-behind") {
					sig = "C05/response-data-queued-into-dying-queue"
				}
				rep.Violation(ci, sig, what, detail())
			}
			rep.Nontrivial(rt.Key(hook, reqMsg, api, fault, j, k, nreq, len(rr.Loads)))
			rep.SetAdd("scenario_kinds", hook+"/"+reqMsg+"/"+api+"/"+fault)
			rep.Count("requests_retired", int64(nreq))
			rep.Count("injected_faults_hit", int64(atomic.LoadInt32(&sendFails)))
		}
		if ci%97 == 0 {
			dd := detail()
			delete(dd, "event_log_tail")
			rep.Sample(dd)
		}
		pert.Stop()
		w.Close()
	}
	rep.Flush(true)
}

func containsStr(s, sub string) bool {
	for i := 0; i+len(sub) <= len(s); i++ {
		if s[i:i+len(sub)] == sub {
			return true
		}
	}
	return false
}

package fullstack

import (
	"time"

	"github.com/ipfs/go-cid"
	"github.com/ipld/go-ipld-prime/datamodel"
	"github.com/libp2p/go-libp2p/core/peer"

	"github.com/ipfs/go-graphsync"
	gsmsg "github.com/ipfs/go-graphsync/message"

	"verif/harness/fab"
)

// RawSend sends requests from a raw peer in one message.
func RawSend(raw *fab.Node, to peer.ID, reqs ...gsmsg.GraphSyncRequest) error {
	m := map[graphsync.RequestID]gsmsg.GraphSyncRequest{}
	for _, r := range reqs {
		m[r.ID()] = r
	}
	return raw.Send(to, gsmsg.NewMessage(m, nil, nil))
}

// RawSendResponse sends a (scripted) response message from a raw peer.
func RawSendResponse(raw *fab.Node, to peer.ID, resps []gsmsg.GraphSyncResponse, blks map[cid.Cid][]byte) error {
	b := gsmsg.NewBuilder()
	_ = b
	rm := map[graphsync.RequestID]gsmsg.GraphSyncResponse{}
	for _, r := range resps {
		rm[r.RequestID()] = r
	}
	return raw.Send(to, gsmsg.NewMessage(nil, rm, toBlocks(blks)))
}

// RespEntry is one metadata entry received for a request, with the message it arrived in.
type RespEntry struct {
	Msg    int // index of the received message
	Link   cid.Cid
	Action graphsync.LinkAction
}

// RawView is everything a raw requestor received for one request id.
type RawView struct {
	Entries       []RespEntry
	Blocks        []map[cid.Cid][]byte // per received message (only messages that carry this request's response)
	OtherLinks    []map[cid.Cid]bool   // per received message: links named by the responses to OTHER requests in that message
	MsgIdx        []int
	Statuses      []graphsync.ResponseStatusCode
	Exts          [][]graphsync.ExtensionName
	Terminal      graphsync.ResponseStatusCode
	HasTerm       bool
	AfterTerminal int // responses received after the terminal status
}

// ViewOf extracts the responses for id from what a raw peer received from a responder.
func ViewOf(raw *fab.Node, from peer.ID, id graphsync.RequestID) RawView {
	var v RawView
	for mi, rc := range raw.ReceivedMsgs() {
		if rc.From != from || rc.Err != nil {
			continue
		}
		for _, rs := range rc.Msg.Responses() {
			if rs.RequestID() != id {
				continue
			}
			if v.HasTerm {
				v.AfterTerminal++
			}
			rs.Metadata().Iterate(func(c cid.Cid, a graphsync.LinkAction) { v.Entries = append(v.Entries, RespEntry{mi, c, a}) })
			bl := map[cid.Cid][]byte{}
			for _, b := range rc.Msg.Blocks() {
				bl[b.Cid()] = b.RawData()
			}
			v.Blocks = append(v.Blocks, bl)
			ol := map[cid.Cid]bool{}
			for _, other := range rc.Msg.Responses() {
				if other.RequestID() != id {
					other.Metadata().Iterate(func(c cid.Cid, a graphsync.LinkAction) { ol[c] = true })
				}
			}
			v.OtherLinks = append(v.OtherLinks, ol)
			v.MsgIdx = append(v.MsgIdx, mi)
			v.Statuses = append(v.Statuses, rs.Status())
			v.Exts = append(v.Exts, rs.ExtensionNames())
			if rs.Status().IsTerminal() {
				v.Terminal = rs.Status()
				v.HasTerm = true
			}
		}
	}
	return v
}

// AwaitTerminal waits until the raw peer has received a terminal status for id, or the
// system is quiescent without one (returns false), or the watchdog fires (inconclusive).
func AwaitTerminal(w *World, raw *fab.Node, from peer.ID, id graphsync.RequestID) (got bool, inconclusive string) {
	deadline := time.Now().Add(60 * time.Second)
	for {
		if ViewOf(raw, from, id).HasTerm {
			return true, ""
		}
		if ok, _ := w.Q.Await(5, 50*time.Millisecond); ok {
			if ViewOf(raw, from, id).HasTerm {
				return true, ""
			}
			// quiescent without a terminal status: confirm
			if ok2, _ := w.Q.Sustained(2 * time.Second); ok2 {
				return ViewOf(raw, from, id).HasTerm, ""
			}
		}
		if time.Now().After(deadline) {
			_, why := w.Q.Await(5, 50*time.Millisecond)
			return false, "no terminal status and no quiescence within the watchdog (" + why + ")"
		}
	}
}

// NewReq builds a New request.
func NewReq(id graphsync.RequestID, root cid.Cid, sel datamodel.Node, exts ...graphsync.ExtensionData) gsmsg.GraphSyncRequest {
	return gsmsg.NewRequest(id, root, sel, graphsync.Priority(0), exts...)
}

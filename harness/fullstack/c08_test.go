package fullstack

import (
	"context"
	"fmt"
	"testing"

	"github.com/ipfs/go-cid"
	"github.com/ipld/go-ipld-prime"
	"github.com/ipld/go-ipld-prime/codec/dagjson"
	"github.com/ipld/go-ipld-prime/datamodel"
	"github.com/ipld/go-ipld-prime/traversal/selector"
	"github.com/ipld/go-ipld-prime/traversal/selector/builder"
	"github.com/libp2p/go-libp2p/core/peer"

	"github.com/ipfs/go-graphsync"

	"verif/harness/gen"
	"verif/harness/ref"
	"verif/harness/rt"
	"verif/harness/store"
)

var c08Plant = []int64{-1, 101, 1000000, 102, -1, 100, 99, 1, 0}

// TestC08: end to end - a default-configured responder rejects every request whose selector has an
// offending recursion, whatever else the application's request hooks do short of validating the
// request themselves (pause it, attach extensions), and does not reject the others.
func TestC08(t *testing.T) {
	p := rt.Load()
	rep := rt.NewReporter(p)
	defer rep.Flush(false)
	modes := []string{"no-extra-hook", "hook-pauses", "hook-sends-extension", "hook-pauses-and-sends-extension"}
	for _, ci := range p.Cases() {
		r := p.RNG("c08e", ci)
		var spec datamodel.Node
		planted := int64(-2)
		if ci%3 == 0 {
			n := 1 + r.Intn(12)
			planted = c08Plant[r.Intn(len(c08Plant))]
			spec = gen.GenChain(r, n, func(inRec bool) builder.SelectorSpec { return gen.Recursion(planted) })
		} else {
			o := gen.ShapeOpts()
			o.MaxDepth = 2 + r.Intn(4)
			o.RecursionP = 40
			plantAt, seen := r.Intn(3), 0
			spec = gen.GenSelector(r, o, func(nesting int, path string) (int64, bool) {
				defer func() { seen++ }()
				if seen == plantAt {
					planted = c08Plant[r.Intn(len(c08Plant))]
					return planted, true
				}
				return 0, false
			})
		}
		if _, err := selector.ParseSelector(spec); err != nil {
			continue
		}
		var bad []string
		if !gen.Analyse(spec, 100, "", &bad) {
			continue
		}
		mode := modes[r.Intn(len(modes))]
		js, _ := ipld.Encode(spec, dagjson.Encode)
		rep.Journal("case %d mode=%s offending=%d", ci, mode, len(bad))
		// keep the traversal small: explore-all to depth 100 over shared sub-DAGs explodes
		var d *gen.DAG
		for try := 0; try < 8; try++ {
			dd := gen.GenDAG(r, gen.DagOpts{MinBlocks: 3, MaxBlocks: 8, Salt: fmt.Sprintf("c08-%d-%d", ci, try)})
			rr := ref.SingleStore(dd.Root, spec, func(k cid.Cid) ([]byte, bool) { b, ok := dd.Blocks[k]; return b, ok }, 0)
			if rr.Err == nil && len(rr.Loads) <= 150 {
				d = dd
				break
			}
		}
		if d == nil {
			continue
		}
		w := NewWorld()
		rs := store.New("R.store", w.Log)
		for k, b := range d.Blocks {
			rs.Put(k, b)
		}
		R := w.AddGS("R", rs, NodeOpts{DefaultValidation: true})
		if mode != "no-extra-hook" {
			R.OnRequest = func(pp peer.ID, rq graphsync.RequestData, a graphsync.IncomingRequestHookActions) {
				if mode == "hook-pauses" || mode == "hook-pauses-and-sends-extension" {
					a.PauseResponse()
				}
				if mode != "hook-pauses" {
					a.SendExtensionData(strExt("noted"))
				}
			}
		}
		A := w.AddRaw("A")
		id := graphsync.NewRequestID()
		_ = RawSend(A, R.ID, NewReq(id, d.Root, spec))
		inc := ""
		if ok, why := w.Quiesce(); !ok {
			inc = why
		}
		unpauseErr := "not attempted"
		if inc == "" && (mode == "hook-pauses" || mode == "hook-pauses-and-sends-extension") {
			// the application approves the held request
			ctx, cancel := context.WithCancel(context.Background())
			var err error
			if !w.Call(func() { err = R.GS.Unpause(ctx, id) }) {
				inc = "Unpause did not return"
			}
			cancel()
			unpauseErr = fmt.Sprint(err)
			if ok, why := w.Quiesce(); !ok && inc == "" {
				inc = why
			}
		}
		// a long traversal can look quiet for a moment: wait for the terminal status, or for quiescence
		// that is sustained, before calling a request unanswered
		if inc == "" {
			if _, why := AwaitTerminal(w, A, R.ID, id); why != "" {
				inc = why
			}
		}
		v := ViewOf(A, R.ID, id)
		blocks := 0
		for _, b := range v.Blocks {
			blocks += len(b)
		}
		hookBlocks := 0
		for _, e := range R.Events() {
			if e.Kind == "outgoing-block-hook" && e.ID == id {
				hookBlocks++
			}
		}
		rep.Eval()
		detail := map[string]any{"case": ci, "selector": string(js), "offending_recursions": bad, "application_hook": mode, "statuses_received": fmt.Sprint(v.Statuses),
			"blocks_received": blocks, "blocks_traversed_by_responder": hookBlocks, "unpause_result": unpauseErr, "event_log_tail": w.Log.Tail(30)}
		switch {
		case inc != "":
			rep.Inconclusive("case %d: %s", ci, inc)
		case len(bad) > 0 && (!v.HasTerm || v.Terminal != graphsync.RequestRejected):
			rep.Violation(ci, "C08/offending-request-not-rejected", fmt.Sprintf("selector with offending recursion(s) %v was not answered with RequestRejected (statuses %v, application hook: %s)", bad, v.Statuses, mode), detail)
		case len(bad) > 0 && (blocks > 0 || hookBlocks > 0):
			rep.Violation(ci, "C08/offending-request-served", fmt.Sprintf("selector with offending recursion(s) %v: %d blocks were sent, %d traversed (application hook: %s)", bad, blocks, hookBlocks, mode), detail)
		case len(bad) == 0 && v.HasTerm && v.Terminal == graphsync.RequestRejected:
			rep.Violation(ci, "C08/valid-request-rejected", fmt.Sprintf("all recursions are limited to <= 100 but the request was rejected (application hook: %s)", mode), detail)
		case len(bad) == 0 && !v.HasTerm:
			rep.Violation(ci, "C08/valid-request-unanswered", fmt.Sprintf("all recursions are limited to <= 100 but the request got no terminal answer (statuses %v, application hook: %s, unpause: %s)", v.Statuses, mode, unpauseErr), detail)
		default:
			rep.Nontrivial(rt.Key("c08e", string(js), mode))
			if len(bad) > 0 {
				rep.Count("offending_requests_rejected", 1)
				rep.SetAdd("offending_x_hook", mode)
			} else {
				rep.Count("valid_requests_answered", 1)
			}
		}
		if ci%211 == 0 {
			delete(detail, "event_log_tail")
			rep.Sample(detail)
		}
		w.Close()
	}
	rep.Flush(true)
}

package fullstack

import (
	"context"
	"errors"
	"fmt"
	"sync/atomic"
	"testing"
	"time"

	"github.com/ipfs/go-cid"
	"github.com/libp2p/go-libp2p/core/peer"

	"github.com/ipfs/go-graphsync"
	gsimpl "github.com/ipfs/go-graphsync/impl"
	gsmsg "github.com/ipfs/go-graphsync/message"

	"verif/harness/fab"
	"verif/harness/gen"
	"verif/harness/ref"
	"verif/harness/rt"
	"verif/harness/store"
)

var failureCodes = []graphsync.ResponseStatusCode{graphsync.RequestRejected, graphsync.RequestFailedBusy, graphsync.RequestFailedUnknown, graphsync.RequestFailedLegal, graphsync.RequestFailedContentNotFound, graphsync.RequestCancelled}

// TestC04: every request's result channels terminate with the right outcome.
func TestC04(t *testing.T) {
	p := rt.Load()
	rep := rt.NewReporter(p)
	defer rep.Flush(false)
	for _, ci := range p.Cases() {
		r := p.RNG("c04", ci)
		d := gen.GenDAG(r, gen.DagOpts{MinBlocks: 3, MaxBlocks: 3 + r.Intn(10), Salt: fmt.Sprintf("c04-%d", ci), Chain: r.Intn(3) == 0})
		sel := gen.AllSelector()
		allHas := func(k cid.Cid) ([]byte, bool) { b, ok := d.Blocks[k]; return b, ok }
		full := ref.TwoStore(d.Root, sel, allHas, allHas, 0)
		if full.Err != nil || len(full.Loads) < 2 || len(full.Loads) > 400 {
			continue
		}
		responder := []string{"real", "real", "scripted", "silent"}[r.Intn(4)]
		trigger := []string{"completion", "ctx-cancel", "api-cancel", "api-then-ctx-cancel", "completion-then-ctx-cancel"}[r.Intn(5)]
		if trigger == "completion-then-ctx-cancel" && responder == "silent" {
			trigger = "api-then-ctx-cancel"
		}
		if responder == "silent" && trigger == "completion" {
			trigger = "ctx-cancel"
		}
		position := []string{"queued", "after-messages", "after-messages", "after-terminal", "immediately"}[r.Intn(5)]
		extra := []string{"none", "none", "none", "pause-then-cancel", "response-hook-error", "block-hook-error", "send-fail-request", "send-fail-all"}[r.Intn(8)]
		if trigger == "completion" || trigger == "completion-then-ctx-cancel" {
			position = "n/a"
			if extra == "pause-then-cancel" {
				extra = "none"
			}
		}
		if responder != "real" && (extra == "pause-then-cancel") {
			extra = "none"
		}
		if position == "queued" && (extra == "response-hook-error" || extra == "block-hook-error" || extra == "pause-then-cancel") {
			extra = "none"
		}
		termCode := graphsync.RequestCompletedFull
		if responder == "scripted" {
			termCode = append(append([]graphsync.ResponseStatusCode{}, failureCodes...), graphsync.RequestCompletedFull, graphsync.RequestCompletedPartial)[r.Intn(8)]
		}
		j := r.Intn(4) // messages let through / sent before the trigger
		rep.Journal("case %d responder=%s trigger=%s position=%s extra=%s code=%s j=%d loads=%d", ci, responder, trigger, position, extra, termCode, j, len(full.Loads))

		w := NewWorld()
		pert := NewPerturber(r.Int63(), 1)
		sa := store.New("A.store", w.Log)
		var aopts []gsimpl.Option
		workers := uint64(6)
		if position == "queued" {
			aopts = append(aopts, gsimpl.MaxInProgressOutgoingRequests(1))
			workers = 1
		}
		if extra == "send-fail-request" || extra == "send-fail-all" {
			aopts = append(aopts, gsimpl.MessageSendRetries(2))
		}
		A := w.AddGS("A", sa, NodeOpts{Options: aopts, Workers: workers})
		var B *GSNode
		var R *fab.Node
		var to peer.ID
		if responder == "real" {
			sb := store.New("B.store", w.Log)
			for k, b := range d.Blocks {
				sb.Put(k, b)
			}
			B = w.AddGS("B", sb, NodeOpts{})
			to = B.ID
		} else {
			R = w.AddRaw("R")
			to = R.ID
		}
		H := w.AddRaw("H")
		back := w.Fab.Link(to, A.ID)
		back.Delay = pert.LinkDelay()
		out := w.Fab.Link(A.ID, to)
		var sendFails int32
		switch extra {
		case "send-fail-request":
			out.SendErr = func(n int, m gsmsg.GraphSyncMessage) error {
				if n < 2 {
					atomic.AddInt32(&sendFails, 1)
					return fab.ErrInjected
				}
				return nil
			}
		case "send-fail-all":
			out.SendErr = func(n int, m gsmsg.GraphSyncMessage) error {
				atomic.AddInt32(&sendFails, 1)
				return fab.ErrInjected
			}
		}
		hookErr := errors.New("verif: hook says no")
		var hookFired int32
		switch extra {
		case "response-hook-error":
			n := int32(0)
			A.OnResponse = func(pp peer.ID, rs graphsync.ResponseData, a graphsync.IncomingResponseHookActions) {
				if atomic.AddInt32(&n, 1) == int32(1+j) {
					atomic.StoreInt32(&hookFired, 1)
					a.TerminateWithError(hookErr)
				}
			}
		case "block-hook-error":
			A.OnIncomingBlock = func(pp peer.ID, rs graphsync.ResponseData, b graphsync.BlockData, a graphsync.IncomingBlockHookActions) {
				if b.Index() == int64(1+j) {
					atomic.StoreInt32(&hookFired, 1)
					a.TerminateWithError(hookErr)
				}
			}
		case "pause-then-cancel":
			A.OnIncomingBlock = func(pp peer.ID, rs graphsync.ResponseData, b graphsync.BlockData, a graphsync.IncomingBlockHookActions) {
				if b.Index() == 1 {
					a.PauseRequest()
				}
			}
		}
		held := false
		if position == "after-messages" && trigger != "completion" && trigger != "completion-then-ctx-cancel" {
			back.CloseGate(j) // the responder is then held by the fabric: completion is impossible
			held = true
		}
		if position == "queued" {
			// occupy the single outgoing worker with a request to a peer that never answers
			w.Request(A, H.ID, d.Root, sel)
			if ok, _ := w.Quiesce(); !ok {
				rep.Inconclusive("case %d: no quiescence after the blocker request", ci)
			}
		}
		id := graphsync.NewRequestID()
		req := w.RequestWithID(id, A, to, d.Root, sel)
		inc := ""
		// scripted responder: j partial messages following the true traversal, then the terminal code
		if responder == "scripted" && (trigger == "completion" || trigger == "completion-then-ctx-cancel") {
			if ok, why := w.Quiesce(); !ok {
				inc = why
			}
			li := 0
			for m := 0; m < j && li < len(full.Loads); m++ {
				n := 1 + r.Intn(3)
				var md []gsmsg.GraphSyncLinkMetadatum
				blks := map[cid.Cid][]byte{}
				for ; n > 0 && li < len(full.Loads); n-- {
					l := full.Loads[li]
					li++
					md = append(md, gsmsg.GraphSyncLinkMetadatum{Link: l.Link, Action: graphsync.LinkActionPresent})
					blks[l.Link] = d.Blocks[l.Link]
				}
				_ = RawSendResponse(R, A.ID, []gsmsg.GraphSyncResponse{gsmsg.NewResponse(id, graphsync.PartialResponse, md)}, blks)
			}
			_ = RawSendResponse(R, A.ID, []gsmsg.GraphSyncResponse{gsmsg.NewResponse(id, termCode, nil)}, nil)
		}
		// cancellation triggers
		cancelReturned := int32(0)
		var cancelErr error
		cancelIssued := int64(0)
		doCancel := func() {
			cancelIssued = w.Log.Add("cancel-issued", "A", "kind=%s", trigger)
			if trigger == "ctx-cancel" || trigger == "completion-then-ctx-cancel" {
				req.Cancel()
				atomic.StoreInt32(&cancelReturned, 1)
			} else {
				if trigger == "api-then-ctx-cancel" {
					defer req.Cancel()
				}
				go func() {
					ctx, c := context.WithTimeout(context.Background(), 120*time.Second)
					cancelErr = A.GS.Cancel(ctx, id)
					c()
					atomic.StoreInt32(&cancelReturned, 1)
				}()
			}
		}
		if trigger == "completion-then-ctx-cancel" {
			// the context is cancelled right behind the terminal status (racing with its processing)
			if r.Intn(2) == 0 {
				time.Sleep(time.Duration(r.Intn(500)) * time.Microsecond)
			}
			doCancel()
		} else if trigger != "completion" {
			switch position {
			case "immediately":
			case "after-terminal":
				select {
				case <-req.Done():
				case <-time.After(20 * time.Second):
				}
			default:
				if ok, why := w.Quiesce(); !ok {
					inc = why
				}
			}
			doCancel()
		}
		// wait for the outcome
		state := AwaitDoneOrIdle(w, req, 3*time.Second)
		if held {
			back.OpenGate() // late deliveries after close must be harmless
		}
		if ok, why := w.Quiesce(); !ok && inc == "" {
			inc = why
		}
		rep.Eval()
		prog, errs, _, _ := req.Snapshot()
		detail := func() map[string]any {
			var es []string
			for _, e := range errs {
				es = append(es, fmt.Sprintf("%T: %.200v", e.Err, e.Err))
			}
			return map[string]any{"case": ci, "responder": responder, "trigger": trigger, "position": position, "extra": extra, "terminal_code": termCode.String(), "messages_before_trigger": j,
				"loads": len(full.Loads), "delivered_nodes": len(prog), "errors": es, "channels_closed": req.Closed(), "event_log_tail": w.Log.Tail(60)}
		}
		hasErr := func(match func(error) bool) bool {
			for _, e := range errs {
				if match(e.Err) {
					return true
				}
			}
			return false
		}
		// the trigger of the property happened iff: a terminal status was delivered, or the caller cancelled
		terminalDelivered := false
		for _, m := range w.Fab.Wire() {
			if m.To == A.ID && m.From == to && m.Delivered != 0 {
				for _, rs := range m.Responses {
					if rs.ID == id && rs.Status.IsTerminal() {
						terminalDelivered = true
					}
				}
			}
		}
		triggered := (trigger != "completion") || terminalDelivered || atomic.LoadInt32(&hookFired) == 1
		switch {
		case inc != "" || state == "inconclusive":
			rep.Inconclusive("case %d: %s %s", ci, inc, state)
		case triggered && state != "done":
			rep.Violation(ci, "C04/channels-not-closed", fmt.Sprintf("trigger (%s/%s/%s) happened and the consumer keeps reading, but at quiescence a result channel is still open", trigger, position, extra), detail())
		case (trigger == "api-cancel" || trigger == "api-then-ctx-cancel") && atomic.LoadInt32(&cancelReturned) == 0:
			rep.Violation(ci, "C04/cancel-call-never-returned", "the cancel API call did not return although the system is quiescent", detail())
		default:
			// (b) cancellation while completion was impossible
			impossible := trigger != "completion" && trigger != "completion-then-ctx-cancel" && (held && j < 2 || responder == "silent" || position == "queued" || (extra == "send-fail-all"))
			if impossible && position != "after-terminal" {
				if !hasErr(func(e error) bool { var ce graphsync.RequestClientCancelledErr; return errors.As(e, &ce) }) {
					// a hook error that fired first is also a legitimate terminal outcome
					if atomic.LoadInt32(&hookFired) == 0 {
						rep.Violation(ci, "C04/no-client-cancelled-error", fmt.Sprintf("caller cancelled (%s, %s) while the request could not have finished, but no client-cancelled error was delivered", trigger, position), detail())
					}
				}
				cancelOnWire := false
				for _, m := range w.Fab.Wire() {
					if m.From == A.ID && m.To == to {
						for _, rq := range m.Requests {
							if rq.ID == id && rq.Type == graphsync.RequestTypeCancel {
								cancelOnWire = true
							}
						}
					}
				}
				attempted := cancelOnWire
				if !attempted {
					for _, ev := range w.Log.Snapshot() {
						if ev.Kind == "send-fail" && ev.Who == "A" && ev.Seq > cancelIssued {
							attempted = true
						}
					}
				}
				if !attempted {
					rep.Violation(ci, "C04/no-cancel-sent", fmt.Sprintf("caller cancelled (%s, %s) but no cancel for the request was sent (or attempted) to the responder", trigger, position), detail())
				}
			}
			// (c) failure status => terminal error identifying it
			if trigger == "completion" && terminalDelivered && termCode.IsFailure() && atomic.LoadInt32(&hookFired) == 0 {
				want := termCode.AsError()
				if !hasErr(func(e error) bool {
					return fmt.Sprintf("%T", e) == fmt.Sprintf("%T", want) && e.Error() == want.Error()
				}) {
					rep.Violation(ci, "C04/failure-status-not-reported", fmt.Sprintf("responder sent %s but no error equal to its AsError() (%T: %v) was delivered", termCode, want, want), detail())
				}
			}
			if atomic.LoadInt32(&hookFired) == 1 && trigger == "completion" && !(terminalDelivered && termCode.IsFailure()) {
				if !hasErr(func(e error) bool { return errors.Is(e, hookErr) || e.Error() == hookErr.Error() }) {
					rep.Violation(ci, "C04/hook-error-not-reported", "a requestor hook terminated the request with an error that was not delivered on the error channel", detail())
				}
			}
			_ = cancelErr
			rep.Nontrivial(rt.Key(responder, trigger, position, extra, termCode, j, len(full.Loads)))
			rep.SetAdd("scenario_kinds", responder+"/"+trigger+"/"+position+"/"+extra)
			if triggered {
				rep.Count("triggers_that_happened", 1)
			}
			rep.Count("injected_send_failures", int64(atomic.LoadInt32(&sendFails)))
		}
		if ci%97 == 0 {
			dd := detail()
			delete(dd, "event_log_tail")
			rep.Sample(dd)
		}
		pert.Stop()
		w.Close()
	}
	rep.Flush(true)
}

package fullstack

import (
	"context"
	"fmt"
	"sort"
	"sync"
	"testing"
	"time"

	"github.com/ipfs/go-cid"
	"github.com/libp2p/go-libp2p/core/peer"

	"github.com/ipfs/go-graphsync"
	gsimpl "github.com/ipfs/go-graphsync/impl"
	gsmsg "github.com/ipfs/go-graphsync/message"

	"verif/harness/fab"
	"verif/harness/gen"
	"verif/harness/rt"
	"verif/harness/store"
)

// parkedByDag returns the DAG indices whose reads are currently parked at the gate.
func (g *dagGate) parked() map[int]int {
	g.mu.Lock()
	defer g.mu.Unlock()
	out := map[int]int{}
	for k, v := range g.parkedN {
		if v > 0 {
			out[k] = v
		}
	}
	return out
}

func (g *dagGate) own(key string, i int) {
	g.mu.Lock()
	g.owner[key] = i
	g.mu.Unlock()
}

// TestC21: work limits are respected and every queued request eventually runs.
//
// sub "incoming": several raw requestor peers -> one responder with W workers and an optional
// per-peer limit P; every traversal parks at a store gate until the script releases it, so the set of
// requests occupying a worker is exactly the set parked at the gate whenever the system is quiescent.
// sub "outgoing": one requestor with W outgoing workers -> raw responders that answer when told to.
func TestC21(t *testing.T) {
	p := rt.Load()
	rep := rt.NewReporter(p)
	defer rep.Flush(false)
	for _, ci := range p.Cases() {
		if p.Sub == "outgoing" {
			c21Outgoing(p, rep, ci)
		} else {
			c21Incoming(p, rep, ci)
		}
	}
	rep.Flush(true)
}

type c21req struct {
	id        graphsync.RequestID
	peer      int
	dag       *gen.DAG
	sent      bool
	cancelled bool // cancelled by its requestor or by the responder API before or while running
	released  bool
	started   bool // observed parked at least once, or completed
}

func c21Incoming(p rt.Params, rep *rt.Reporter, ci int) {
	r := p.RNG("c21", ci)
	W := uint64([]int{1, 2, 3, 6}[r.Intn(4)])
	P := uint64(0)
	if r.Intn(2) == 0 {
		P = uint64(1 + r.Intn(2))
	}
	nPeers := 2 + r.Intn(3)
	w := NewWorld()
	pert := NewPerturber(r.Int63(), 1)
	defer pert.Stop()
	slowStart := r.Intn(3) == 0
	if slowStart {
		pert.Pin("tq.beforeExecute", time.Duration(1+r.Intn(4))*time.Millisecond)
	}
	rs := store.New("R.store", w.Log)
	opts := []gsimpl.Option{gsimpl.MaxInProgressIncomingRequests(W)}
	if P > 0 {
		opts = append(opts, gsimpl.MaxInProgressIncomingRequestsPerPeer(P))
	}
	R := w.AddGS("R", rs, NodeOpts{Options: opts, Workers: W})
	R.Workers = 0 // the monitor below decides work conservation itself
	gate := newDagGate(rs)
	var peers []*fab.Node
	for i := 0; i < nPeers; i++ {
		peers = append(peers, w.AddRaw(fmt.Sprintf("P%d", i)))
	}
	var reqs []*c21req
	var trace []string
	viol, vsig := "", ""
	inc := ""
	apiCtx, apiCancel := context.WithCancel(context.Background())
	defer apiCancel()
	maxParked, maxParkedPeer := 0, 0
	snapshots := 0
	// snapshot takes the quiescent-point observations and applies the three oracles
	snapshot := func(label string) {
		if viol != "" || inc != "" {
			return
		}
		stable := 0
		for round := 0; ; round++ {
			if ok, why := w.Quiesce(); !ok {
				inc = label + ": " + why
				return
			}
			parked := gate.parked()
			perPeer := map[int]int{}
			for i := range parked {
				perPeer[reqs[i].peer]++
				reqs[i].started = true
			}
			for i, q := range reqs {
				if q.sent && !q.started && ViewOf(peers[q.peer], R.ID, q.id).HasTerm {
					reqs[i].started = true // answered (completed or rejected/cancelled) without ever parking
				}
			}
			if len(parked) > maxParked {
				maxParked = len(parked)
			}
			v, sig := "", ""
			if uint64(len(parked)) > W {
				v, sig = fmt.Sprintf("%d traversals are executing at once but the responder is limited to %d", len(parked), W), "C21/incoming-limit-exceeded"
			}
			for pi, n := range perPeer {
				if n > maxParkedPeer {
					maxParkedPeer = n
				}
				if P > 0 && uint64(n) > P {
					v, sig = fmt.Sprintf("%d traversals for peer P%d are executing at once but the per-peer limit is %d", n, pi, P), "C21/per-peer-limit-exceeded"
				}
			}
			// work conservation: a request that is waiting, not cancelled, whose peer is below its limit,
			// while a worker is free
			if v == "" && uint64(len(parked)) < W {
				for i, q := range reqs {
					if q.sent && !q.cancelled && !q.started && (P == 0 || uint64(perPeer[q.peer]) < P) {
						st := R.Impl.PeerState(peers[q.peer].ID).IncomingState
						v = fmt.Sprintf("request #%d of peer P%d is waiting although only %d of %d workers are busy and the peer runs %d (limit %d); queue for the peer: active=%v pending=%v",
							i, q.peer, len(parked), W, perPeer[q.peer], P, st.TaskQueueState.Active, st.TaskQueueState.Pending)
						sig = "C21/queued-request-not-run"
						break
					}
				}
			}
			if v == "" {
				snapshots++
				return
			}
			if sig != "C21/queued-request-not-run" || stable >= 2 {
				viol, vsig = label+": "+v, sig
				return
			}
			if round >= 12 {
				inc = label + ": a request keeps waiting but the system never stayed quiet long enough to decide: " + v
				return
			}
			// thawing after a removed task is clock driven (100 ms rounds): the starvation must persist
			// over two sustained quiescent windows (12 thaw periods each) before it counts
			if ok, _ := w.Q.Sustained(1200 * time.Millisecond); ok {
				stable++
			}
		}
	}
	newReq := func(pi int) int {
		i := len(reqs)
		d := gen.GenDAG(r, gen.DagOpts{MinBlocks: 2, MaxBlocks: 5, Salt: fmt.Sprintf("c21-%d-%d", ci, i)})
		for k, b := range d.Blocks {
			rs.Put(k, b)
			gate.own(k.KeyString(), i)
		}
		gate.set(i, true)
		q := &c21req{id: graphsync.NewRequestID(), peer: pi, dag: d, sent: true}
		reqs = append(reqs, q)
		_ = RawSend(peers[pi], R.ID, NewReq(q.id, d.Root, gen.AllSelectorDepth(3)))
		return i
	}
	pick := func(f func(*c21req) bool) int {
		var c []int
		for i, q := range reqs {
			if f(q) {
				c = append(c, i)
			}
		}
		if len(c) == 0 {
			return -1
		}
		return c[r.Intn(len(c))]
	}
	waiting := func(q *c21req) bool { return q.sent && !q.started && !q.cancelled }
	running := func(q *c21req) bool { return q.started && !q.released }
	nsteps := 10 + r.Intn(25)
	flooder := r.Intn(nPeers)
	for s := 0; s < nsteps && viol == "" && inc == ""; s++ {
		op := ""
		switch x := r.Intn(20); {
		case x < 7:
			pi := r.Intn(nPeers)
			if r.Intn(2) == 0 {
				pi = flooder // one peer keeps submitting
			}
			burst := 1 + r.Intn(3)
			for b := 0; b < burst; b++ {
				newReq(pi)
			}
			op = fmt.Sprintf("push(P%d x%d)", pi, burst)
		case x < 12:
			if i := pick(running); i >= 0 {
				reqs[i].released = true
				gate.set(i, false)
				op = fmt.Sprintf("release(#%d)", i)
			}
		case x < 14:
			if i := pick(waiting); i >= 0 {
				reqs[i].cancelled = true
				_ = RawSend(peers[reqs[i].peer], R.ID, gsmsg.NewCancelRequest(reqs[i].id))
				op = fmt.Sprintf("requestor-cancel-queued(#%d)", i)
			}
		case x < 16:
			if i := pick(waiting); i >= 0 {
				reqs[i].cancelled = true
				id := reqs[i].id
				if !w.Call(func() { _ = R.GS.Cancel(apiCtx, id) }) {
					inc = "responder Cancel call did not return"
				}
				op = fmt.Sprintf("responder-cancel-queued(#%d)", i)
			}
		case x < 17:
			if i := pick(running); i >= 0 {
				reqs[i].cancelled = true
				_ = RawSend(peers[reqs[i].peer], R.ID, gsmsg.NewCancelRequest(reqs[i].id))
				op = fmt.Sprintf("requestor-cancel-running(#%d)", i)
			}
		case x < 18:
			if i := pick(running); i >= 0 {
				reqs[i].cancelled = true
				id := reqs[i].id
				if !w.Call(func() { _ = R.GS.Cancel(apiCtx, id) }) {
					inc = "responder Cancel call did not return"
				}
				op = fmt.Sprintf("responder-cancel-running(#%d)", i)
			}
		default:
			// a new request aborted by the responder at once: the abort races the worker that picks it up
			pi := r.Intn(nPeers)
			i := newReq(pi)
			reqs[i].cancelled = true
			if r.Intn(2) == 0 {
				id := reqs[i].id
				if !w.Call(func() { _ = R.GS.Cancel(apiCtx, id) }) {
					inc = "responder Cancel call did not return"
				}
				op = fmt.Sprintf("push+responder-cancel(P%d #%d)", pi, i)
			} else {
				_ = RawSend(peers[pi], R.ID, gsmsg.NewCancelRequest(reqs[i].id))
				op = fmt.Sprintf("push+requestor-cancel(P%d #%d)", pi, i)
			}
		}
		if op == "" {
			continue
		}
		trace = append(trace, op)
		rep.SetAdd("ops_used", op[:indexOrLen(op, '(')])
		snapshot(fmt.Sprintf("after step %d (%s)", s, op))
	}
	// drain: release in random order, one at a time, checking the oracles after each release
	for viol == "" && inc == "" {
		i := pick(func(q *c21req) bool { return q.started && !q.released })
		if i < 0 {
			i = pick(func(q *c21req) bool { return q.sent && !q.released })
			if i < 0 {
				break
			}
		}
		reqs[i].released = true
		gate.set(i, false)
		trace = append(trace, fmt.Sprintf("drain-release(#%d)", i))
		snapshot(fmt.Sprintf("drain, after releasing #%d", i))
	}
	unanswered := -1
	if viol == "" && inc == "" {
		for i, q := range reqs {
			if q.sent && !q.cancelled && !ViewOf(peers[q.peer], R.ID, q.id).HasTerm {
				unanswered = i
			}
		}
		if unanswered >= 0 {
			if ok, _ := w.Q.Sustained(2 * time.Second); ok {
				q := reqs[unanswered]
				if !ViewOf(peers[q.peer], R.ID, q.id).HasTerm {
					st := R.Impl.PeerState(peers[q.peer].ID).IncomingState
					viol = fmt.Sprintf("after everything was released request #%d of peer P%d (never cancelled) has no terminal answer; queue for the peer: active=%v pending=%v", unanswered, q.peer, st.TaskQueueState.Active, st.TaskQueueState.Pending)
					vsig = "C21/queued-request-not-run"
				}
			}
		}
	}
	rep.Eval()
	detail := map[string]any{"case": ci, "sub": "incoming", "workers": W, "per_peer_limit": P, "peers": nPeers, "requests": len(reqs), "history": trace,
		"slow_task_start": slowStart, "max_parked_at_once": maxParked, "max_parked_one_peer": maxParkedPeer, "quiescent_snapshots": snapshots}
	switch {
	case inc != "":
		rep.Inconclusive("case %d: %s", ci, inc)
	case viol != "":
		detail["event_log_tail"] = w.Log.Tail(60)
		rep.Violation(ci, vsig, viol, detail)
	default:
		rep.Nontrivial(rt.Key("c21i", W, P, nPeers, len(reqs), len(trace), ci))
		rep.Count("quiescent_snapshots", int64(snapshots))
		rep.Count("requests", int64(len(reqs)))
		rep.Max("max_parked_at_once", int64(maxParked))
		if uint64(maxParked) == W {
			rep.Count("cases_reaching_worker_limit", 1)
		}
		if P > 0 && uint64(maxParkedPeer) == P {
			rep.Count("cases_reaching_per_peer_limit", 1)
		}
	}
	if ci%71 == 0 {
		rep.Sample(detail)
	}
	gate.releaseAll()
	apiCancel()
	w.Close()
}

func indexOrLen(s string, c byte) int {
	for i := 0; i < len(s); i++ {
		if s[i] == c {
			return i
		}
	}
	return len(s)
}

func c21Outgoing(p rt.Params, rep *rt.Reporter, ci int) {
	r := p.RNG("c21o", ci)
	W := uint64([]int{1, 2, 3, 6}[r.Intn(4)])
	nResp := 1 + r.Intn(3)
	w := NewWorld()
	pert := NewPerturber(r.Int63(), 1)
	defer pert.Stop()
	if r.Intn(3) == 0 {
		pert.Pin("tq.beforeExecute", time.Duration(1+r.Intn(4))*time.Millisecond)
	}
	as := store.New("A.store", w.Log)
	A := w.AddGS("A", as, NodeOpts{Options: []gsimpl.Option{gsimpl.MaxInProgressOutgoingRequests(W)}, Workers: W})
	A.Workers = 0
	var resps []*fab.Node
	for i := 0; i < nResp; i++ {
		resps = append(resps, w.AddRaw(fmt.Sprintf("S%d", i)))
	}
	type oreq struct {
		req       *Req
		to        int
		cancelled bool
		answered  bool
	}
	var reqs []*oreq
	var trace []string
	viol, vsig, inc := "", "", ""
	maxInFlight, snapshots := 0, 0
	// a request occupies a worker from the moment its New message is on the wire until it ends
	onWire := func() map[graphsync.RequestID]bool {
		out := map[graphsync.RequestID]bool{}
		for _, m := range w.Fab.Wire() {
			if m.From != A.ID {
				continue
			}
			for _, rq := range m.Requests {
				if rq.Type == graphsync.RequestTypeNew {
					out[rq.ID] = true
				}
			}
		}
		return out
	}
	snapshot := func(label string) {
		if viol != "" || inc != "" {
			return
		}
		stable := 0
		for round := 0; ; round++ {
			if ok, why := w.Quiesce(); !ok {
				inc = label + ": " + why
				return
			}
			sent := onWire()
			inFlight, waitingN, firstWaiting := 0, 0, -1
			for i, q := range reqs {
				switch {
				case q.req.Closed():
				case sent[q.req.ID]:
					inFlight++
				case !q.cancelled:
					waitingN++
					if firstWaiting < 0 {
						firstWaiting = i
					}
				}
			}
			if inFlight > maxInFlight {
				maxInFlight = inFlight
			}
			v, sig := "", ""
			if uint64(inFlight) > W {
				v, sig = fmt.Sprintf("%d outgoing requests are executing at once but the limit is %d", inFlight, W), "C21/outgoing-limit-exceeded"
			} else if waitingN > 0 && uint64(inFlight) < W {
				st := A.GS.Stats().OutgoingRequests
				v = fmt.Sprintf("request #%d is waiting although only %d of %d outgoing workers are busy (queue: active=%d pending=%d)", firstWaiting, inFlight, W, st.Active, st.Pending)
				sig = "C21/queued-request-not-run"
			}
			if v == "" {
				snapshots++
				return
			}
			if sig != "C21/queued-request-not-run" || stable >= 2 {
				viol, vsig = label+": "+v, sig
				return
			}
			if round >= 12 {
				inc = label + ": a request keeps waiting but the system never stayed quiet long enough to decide: " + v
				return
			}
			if ok, _ := w.Q.Sustained(1200 * time.Millisecond); ok {
				stable++
			}
		}
	}
	pick := func(f func(*oreq) bool) int {
		var c []int
		for i, q := range reqs {
			if f(q) {
				c = append(c, i)
			}
		}
		if len(c) == 0 {
			return -1
		}
		return c[r.Intn(len(c))]
	}
	answer := func(i int) {
		q := reqs[i]
		q.answered = true
		_ = RawSendResponse(resps[q.to], A.ID, []gsmsg.GraphSyncResponse{gsmsg.NewResponse(q.req.ID, graphsync.RequestFailedContentNotFound, nil)}, nil)
	}
	nsteps := 10 + r.Intn(25)
	for s := 0; s < nsteps && viol == "" && inc == ""; s++ {
		op := ""
		sent := onWire()
		switch x := r.Intn(20); {
		case x < 8:
			burst := 1 + r.Intn(3)
			to := r.Intn(nResp)
			for b := 0; b < burst; b++ {
				d := gen.GenDAG(r, gen.DagOpts{MinBlocks: 2, MaxBlocks: 4, Salt: fmt.Sprintf("c21o-%d-%d", ci, len(reqs))})
				reqs = append(reqs, &oreq{req: w.Request(A, resps[to].ID, d.Root, gen.AllSelectorDepth(3)), to: to})
			}
			op = fmt.Sprintf("request(S%d x%d)", to, burst)
		case x < 14:
			if i := pick(func(q *oreq) bool { return sent[q.req.ID] && !q.answered && !q.req.Closed() }); i >= 0 {
				answer(i)
				op = fmt.Sprintf("answer(#%d)", i)
			}
		case x < 17:
			if i := pick(func(q *oreq) bool { return !sent[q.req.ID] && !q.cancelled }); i >= 0 {
				reqs[i].cancelled = true
				reqs[i].req.Cancel()
				op = fmt.Sprintf("cancel-queued(#%d)", i)
			}
		case x < 19:
			if i := pick(func(q *oreq) bool { return sent[q.req.ID] && !q.req.Closed() && !q.cancelled }); i >= 0 {
				reqs[i].cancelled = true
				reqs[i].req.Cancel()
				op = fmt.Sprintf("cancel-running(#%d)", i)
			}
		default:
			to := r.Intn(nResp)
			d := gen.GenDAG(r, gen.DagOpts{MinBlocks: 2, MaxBlocks: 4, Salt: fmt.Sprintf("c21o-%d-%d", ci, len(reqs))})
			q := &oreq{req: w.Request(A, resps[to].ID, d.Root, gen.AllSelectorDepth(3)), to: to, cancelled: true}
			reqs = append(reqs, q)
			q.req.Cancel()
			op = fmt.Sprintf("request+cancel(S%d)", to)
		}
		if op == "" {
			continue
		}
		trace = append(trace, op)
		rep.SetAdd("ops_used", op[:indexOrLen(op, '(')])
		snapshot(fmt.Sprintf("after step %d (%s)", s, op))
	}
	for viol == "" && inc == "" {
		sent := onWire()
		i := pick(func(q *oreq) bool { return sent[q.req.ID] && !q.answered && !q.req.Closed() })
		if i < 0 {
			break
		}
		answer(i)
		trace = append(trace, fmt.Sprintf("drain-answer(#%d)", i))
		snapshot(fmt.Sprintf("drain, after answering #%d", i))
	}
	if viol == "" && inc == "" {
		for i, q := range reqs {
			if !q.req.Closed() {
				if ok, _ := w.Q.Sustained(2 * time.Second); ok && !q.req.Closed() {
					st := A.GS.Stats().OutgoingRequests
					viol = fmt.Sprintf("after every sent request was answered, request #%d is still open (sent=%v cancelled=%v; queue active=%d pending=%d)", i, onWire()[q.req.ID], q.cancelled, st.Active, st.Pending)
					vsig = "C21/queued-request-not-run"
				}
				break
			}
		}
	}
	rep.Eval()
	detail := map[string]any{"case": ci, "sub": "outgoing", "workers": W, "responders": nResp, "requests": len(reqs), "history": trace,
		"max_in_flight": maxInFlight, "quiescent_snapshots": snapshots}
	switch {
	case inc != "":
		rep.Inconclusive("case %d: %s", ci, inc)
	case viol != "":
		detail["event_log_tail"] = w.Log.Tail(60)
		rep.Violation(ci, vsig, viol, detail)
	default:
		rep.Nontrivial(rt.Key("c21o", W, nResp, len(reqs), len(trace), ci))
		rep.Count("quiescent_snapshots", int64(snapshots))
		rep.Count("requests", int64(len(reqs)))
		if uint64(maxInFlight) == W {
			rep.Count("cases_reaching_worker_limit", 1)
		}
	}
	if ci%71 == 0 {
		rep.Sample(detail)
	}
	w.Close()
}

var _ = sort.Ints
var _ sync.Mutex
var _ cid.Cid
var _ peer.ID

package fullstack

import (
	blocks "github.com/ipfs/go-block-format"
	"github.com/ipfs/go-cid"
)

func toBlocks(m map[cid.Cid][]byte) map[cid.Cid]blocks.Block {
	out := map[cid.Cid]blocks.Block{}
	for c, d := range m {
		b, err := blocks.NewBlockWithCid(d, c)
		if err == nil {
			out[c] = b
		}
	}
	return out
}

package fullstack

import (
	"fmt"
	dagpb "github.com/ipld/go-codec-dagpb"
	"github.com/ipld/go-ipld-prime/node/basicnode"
	"math/rand"
	"runtime"
	"sync"
	"time"

	"github.com/ipfs/go-cid"
	"github.com/ipld/go-ipld-prime"
	"github.com/ipld/go-ipld-prime/codec/dagjson"
	"github.com/ipld/go-ipld-prime/datamodel"

	"github.com/ipfs/go-graphsync/verifhook"

	"verif/harness/gen"
	"verif/harness/ref"
	"verif/harness/rt"
)

// Case is one generated data-plane case: DAG x selector x store split.
type Case struct {
	Idx       int
	DAG       *gen.DAG
	Sel       datamodel.Node
	SelKind   string
	ReqClass  string
	RespClass string
	ReqHas    map[cid.Cid]bool
	RespHas   map[cid.Cid]bool
	FullOrder []cid.Cid   // load order of the traversal when every block is available
	Full      ref.Outcome // reference traversal over the complete true DAG
	Exp       ref.Outcome // reference two-store outcome
	PertSeed  int64
}

// SelJSON renders the selector.
func SelJSON(n datamodel.Node) string {
	b, err := ipld.Encode(n, dagjson.Encode)
	if err != nil {
		return "<unencodable>"
	}
	return string(b)
}

// GenCase generates a case. bias selects the split distribution:
// "" uniform over classes, "prefix" favours requestor-holds-prefix/all/none (C24).
func GenCase(p rt.Params, stream string, idx int, bias string) *Case {
	r := p.RNG(stream, idx)
	c := &Case{Idx: idx}
	maxB := p.Pick(40, 120)
	if r.Intn(10) == 0 {
		maxB = p.Pick(40, 300)
	}
	o := gen.DagOpts{MinBlocks: 3, MaxBlocks: 3 + r.Intn(maxB), Salt: fmt.Sprintf("%s-%d", stream, idx), EmptyRawP: 3}
	if r.Intn(12) == 0 {
		o.Chain = true
	}
	c.DAG = gen.GenDAG(r, o)
	allHas := func(k cid.Cid) ([]byte, bool) { b, ok := c.DAG.Blocks[k]; return b, ok }
	for try := 0; ; try++ {
		c.Sel, c.SelKind = gen.DataSelector(r)
		c.Full = ref.TwoStore(c.DAG.Root, c.Sel, allHas, allHas, 0)
		// keep selectors the data supports (no selector/data mismatch error, traversal of bounded size)
		if c.Full.Err == nil && len(c.Full.Loads) > 1 {
			break
		}
		if try > 0 && try%8 == 0 {
			// draw a smaller DAG: shared sub-DAGs can make every unbounded traversal explode
			o.MaxBlocks = 3 + o.MaxBlocks/2
			c.DAG = gen.GenDAG(r, o)
		}
		if try > 60 && c.Full.Err == nil {
			break
		}
	}
	for _, l := range c.Full.Loads {
		c.FullOrder = append(c.FullOrder, l.Link)
	}
	reqClasses := SplitClasses
	if bias == "prefix" {
		reqClasses = []string{"prefix", "prefix", "prefix", "all", "none", "random50", "only-subtree"}
	}
	c.ReqClass = reqClasses[r.Intn(len(reqClasses))]
	c.RespClass = []string{"all", "all", "all", "random80", "random50", "prefix", "all-but-subtree", "only-subtree", "none", "random20"}[r.Intn(10)]
	c.ReqHas = SplitStore(r, c.DAG, c.FullOrder, c.ReqClass)
	c.RespHas = SplitStore(r, c.DAG, c.FullOrder, c.RespClass)
	c.Exp = ref.TwoStore(c.DAG.Root, c.Sel, HasFn(c.DAG, c.ReqHas), HasFn(c.DAG, c.RespHas), 0)
	c.PertSeed = r.Int63()
	return c
}

// Describe renders the case for replay files / samples.
func (c *Case) Describe() map[string]any {
	return map[string]any{
		"case": c.Idx, "blocks": len(c.DAG.Blocks), "dag_classes": c.DAG.Class, "root": c.DAG.Root.String(),
		"selector_kind": c.SelKind, "selector": SelJSON(c.Sel),
		"requestor_split": c.ReqClass, "responder_split": c.RespClass,
		"requestor_has": len(c.ReqHas), "responder_has": len(c.RespHas),
		"expected_visits": len(c.Exp.Visits), "expected_loads": len(c.Exp.Loads), "expected_missing": len(c.Exp.MissingLoads),
		"expected_remote_blocks": len(c.Exp.RemoteObtained), "local_loads_before_first_miss": c.Exp.LocalBeforeFirstMiss,
	}
}

// Detail adds the reference load list (for replay files).
func (c *Case) Detail() map[string]any {
	d := c.Describe()
	d["reference_loads"] = ref.FmtLoads(c.Exp.Loads)
	d["requestor_blocks"] = SortedCids(c.ReqHas)
	d["responder_blocks"] = SortedCids(c.RespHas)
	return d
}

// Perturber draws schedule perturbations at verifhook yield points and link delays from a per-case PRNG.
type Perturber struct {
	mu    sync.Mutex
	r     *rand.Rand
	level int // 0 none, 1 light, 2 heavy
	pins  map[string]time.Duration
	hits  map[string]int
}

// NewPerturber installs the perturbation callback. level 0 disables it.
func NewPerturber(seed int64, level int) *Perturber {
	p := &Perturber{r: rand.New(rand.NewSource(seed)), level: level, pins: map[string]time.Duration{}, hits: map[string]int{}}
	verifhook.SetYield(p.yield)
	return p
}

// Pin forces a fixed delay at one named point.
func (p *Perturber) Pin(point string, d time.Duration) {
	p.mu.Lock()
	p.pins[point] = d
	p.mu.Unlock()
}

// Stop removes the callback.
func (p *Perturber) Stop() { verifhook.SetYield(func(string) {}) }

func (p *Perturber) yield(point string) {
	p.mu.Lock()
	p.hits[point]++
	if d, ok := p.pins[point]; ok {
		p.mu.Unlock()
		time.Sleep(d)
		return
	}
	if p.level == 0 {
		p.mu.Unlock()
		return
	}
	x := p.r.Intn(100)
	var d time.Duration
	if x >= 92 {
		d = time.Duration(10+p.r.Intn(400*p.level)) * time.Microsecond
	}
	p.mu.Unlock()
	switch {
	case x < 60:
	case x < 92:
		runtime.Gosched()
	default:
		time.Sleep(d)
	}
}

// LinkDelay returns a delay function for a fabric link (jitter).
func (p *Perturber) LinkDelay() func() time.Duration {
	return func() time.Duration {
		p.mu.Lock()
		defer p.mu.Unlock()
		if p.level == 0 {
			return 0
		}
		if p.r.Intn(4) != 0 {
			return 0
		}
		return time.Duration(p.r.Intn(300*p.level)) * time.Microsecond
	}
}

// Hits returns how often each yield point was reached.
func (p *Perturber) Hits() map[string]int {
	p.mu.Lock()
	defer p.mu.Unlock()
	out := map[string]int{}
	for k, v := range p.hits {
		out[k] = v
	}
	return out
}

// MakeCase builds a case from explicit parts.
func MakeCase(idx int, d *gen.DAG, sel datamodel.Node, kind string, reqHas, respHas map[cid.Cid]bool) *Case {
	c := &Case{Idx: idx, DAG: d, Sel: sel, SelKind: kind, ReqClass: "explicit", RespClass: "explicit", ReqHas: reqHas, RespHas: respHas}
	allHas := func(k cid.Cid) ([]byte, bool) { b, ok := d.Blocks[k]; return b, ok }
	c.Full = ref.TwoStore(d.Root, sel, allHas, allHas, 0)
	for _, l := range c.Full.Loads {
		c.FullOrder = append(c.FullOrder, l.Link)
	}
	c.Exp = ref.TwoStore(d.Root, sel, HasFn(d, reqHas), HasFn(d, respHas), 0)
	c.PertSeed = int64(idx)
	return c
}

// refChooser is the default prototype chooser (same as go-graphsync's default).
var refChooser = dagpb.AddSupportToChooser(basicnode.Chooser)

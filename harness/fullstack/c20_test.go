package fullstack

import (
	"fmt"
	"math/rand"
	"sync"
	"testing"
	"time"

	"github.com/ipfs/go-cid"
	"github.com/libp2p/go-libp2p/core/peer"

	"github.com/ipfs/go-graphsync"
	"github.com/ipfs/go-graphsync/dedupkey"
	gsimpl "github.com/ipfs/go-graphsync/impl"

	"verif/harness/gen"
	"verif/harness/ref"
	"verif/harness/rt"
	"verif/harness/store"
)

// TestC20: concurrent requests between two peers each retrieve completely.
func TestC20(t *testing.T) {
	p := rt.Load()
	rep := rt.NewReporter(p)
	defer rep.Flush(false)
	for _, ci := range p.Cases() {
		r := p.RNG("c20", ci)
		class := []string{"overlap-same-scope", "overlap-distinct-keys", "disjoint", "overlap-requestor-holds-shared", "overlap-same-key"}[r.Intn(5)]
		nreq := 2 + r.Intn(4)
		// the DAGs: one DAG with sub-roots (overlap) or several disjoint DAGs
		type rq struct {
			dag  *gen.DAG
			root cid.Cid
			full ref.Outcome
			key  string
		}
		var rqs []rq
		blocks := map[cid.Cid][]byte{}
		sel := gen.AllSelector()
		mk := func(d *gen.DAG, root cid.Cid) (rq, bool) {
			all := func(k cid.Cid) ([]byte, bool) { b, ok := d.Blocks[k]; return b, ok }
			f := ref.TwoStore(root, sel, all, all, 0)
			return rq{dag: d, root: root, full: f}, f.Err == nil && len(f.Loads) > 0
		}
		if class == "disjoint" {
			for i := 0; i < nreq; i++ {
				for try := 0; try < 20; try++ {
					d := gen.GenDAG(r, gen.DagOpts{MinBlocks: 3, MaxBlocks: 3 + r.Intn(25), Salt: fmt.Sprintf("c20-%d-%d-%d", ci, i, try), EmptyRawP: 2})
					if q, ok := mk(d, d.Root); ok {
						rqs = append(rqs, q)
						for k, b := range d.Blocks {
							blocks[k] = b
						}
						break
					}
				}
			}
		} else {
			var d *gen.DAG
			for try := 0; try < 30; try++ {
				d = gen.GenDAG(r, gen.DagOpts{MinBlocks: 6, MaxBlocks: 6 + r.Intn(30), Salt: fmt.Sprintf("c20-%d-%d", ci, try), EmptyRawP: 2})
				if q, ok := mk(d, d.Root); ok && len(d.Roots) > 0 {
					rqs = append(rqs, q)
					break
				}
			}
			if len(rqs) == 0 {
				continue
			}
			for k, b := range d.Blocks {
				blocks[k] = b
			}
			for i := 1; i < nreq; i++ {
				root := d.Root
				if r.Intn(3) > 0 {
					root = d.Roots[r.Intn(len(d.Roots))]
				}
				if q, ok := mk(d, root); ok {
					rqs = append(rqs, q)
				}
			}
		}
		if len(rqs) < 2 {
			continue
		}
		// shared blocks: loaded by more than one request
		count := map[cid.Cid]int{}
		for _, q := range rqs {
			seen := map[cid.Cid]bool{}
			for _, l := range q.full.Loads {
				if !seen[l.Link] {
					seen[l.Link] = true
					count[l.Link]++
				}
			}
		}
		reqHas := map[cid.Cid]bool{}
		switch class {
		case "overlap-requestor-holds-shared":
			for k, n := range count {
				if n > 1 {
					reqHas[k] = true
				}
			}
		default:
			for k := range blocks {
				if r.Intn(5) == 0 {
					reqHas[k] = true
				}
			}
		}
		if class == "overlap-distinct-keys" {
			for i := range rqs {
				rqs[i].key = fmt.Sprintf("scope-%d", i)
			}
		}
		if class == "overlap-same-key" {
			for i := range rqs {
				rqs[i].key = "shared-scope"
			}
		}
		sameScope := class == "overlap-same-scope" || class == "overlap-same-key"
		// in half of the same-scope cases the responder serves one request at a time, so that a request
		// often finishes there before the next one (already registered) is traversed
		serial := sameScope && r.Intn(2) == 0
		rep.Journal("case %d class=%s requests=%d blocks=%d", ci, class, len(rqs), len(blocks))
		w := NewWorld()
		pert := NewPerturber(r.Int63(), 1+ci%2)
		sa := store.New("A.store", w.Log)
		sb := store.New("B.store", w.Log)
		for k := range reqHas {
			sa.Put(k, blocks[k])
		}
		for k, b := range blocks {
			sb.Put(k, b)
		}
		A := w.AddGS("A", sa, NodeOpts{})
		var bopts []gsimpl.Option
		if serial {
			bopts = append(bopts, gsimpl.MaxInProgressIncomingRequests(1))
		}
		B := w.AddGS("B", sb, NodeOpts{Options: bopts})
		w.Fab.Link(A.ID, B.ID).Delay = pert.LinkDelay()
		w.Fab.Link(B.ID, A.ID).Delay = pert.LinkDelay()
		// relative speeds: per-request delays in the block hooks on both sides
		var dmu sync.Mutex
		dr := rand.New(rand.NewSource(r.Int63()))
		slow := map[graphsync.RequestID]int{}
		delay := func(id graphsync.RequestID) {
			dmu.Lock()
			s := slow[id]
			d := time.Duration(0)
			if s > 0 && dr.Intn(3) == 0 {
				d = time.Duration(dr.Intn(s)) * time.Microsecond
			}
			dmu.Unlock()
			if d > 0 {
				time.Sleep(d)
			}
		}
		A.OnIncomingBlock = func(pp peer.ID, rs graphsync.ResponseData, b graphsync.BlockData, a graphsync.IncomingBlockHookActions) {
			delay(rs.RequestID())
		}
		B.OnOutgoingBlock = func(pp peer.ID, rq graphsync.RequestData, b graphsync.BlockData, a graphsync.OutgoingBlockHookActions) {
			delay(rq.ID())
		}
		reqs := make([]*Req, len(rqs))
		for i, q := range rqs {
			id := graphsync.NewRequestID()
			dmu.Lock()
			slow[id] = []int{0, 0, 200, 800}[r.Intn(4)]
			dmu.Unlock()
			var exts []graphsync.ExtensionData
			if q.key != "" {
				dk, _ := dedupkey.EncodeDedupKey(q.key)
				exts = append(exts, graphsync.ExtensionData{Name: graphsync.ExtensionDeDupByKey, Data: dk})
			}
			reqs[i] = w.RequestWithID(id, A, B.ID, q.root, sel, exts...)
			if r.Intn(3) == 0 {
				time.Sleep(time.Duration(r.Intn(300)) * time.Microsecond)
			}
		}
		inc := ""
		hungAny := false
		for _, rq := range reqs {
			h, ic := AwaitDone(w, rq)
			if ic != "" {
				inc = ic
			}
			hungAny = hungAny || h
		}
		if inc == "" && !hungAny {
			if ok, why := w.Quiesce(); !ok {
				inc = why
			}
		}
		rep.Eval()
		var analysis []string
		detail := func(i int) map[string]any {
			d := map[string]any{"case": ci, "class": class, "requests": len(rqs), "blocks": len(blocks), "requestor_has_initially": len(reqHas)}
			var rs []string
			for j, q := range rqs {
				prog, errs, _, _ := reqs[j].Snapshot()
				rs = append(rs, fmt.Sprintf("request %d id=%s root=%s key=%q expected_visits=%d delivered=%d errors=%d", j, reqs[j].ID.String()[:8], q.root, q.key, len(q.full.Visits), len(prog), len(errs)))
			}
			d["per_request"] = rs
			if i >= 0 {
				_, errs, _, _ := reqs[i].Snapshot()
				var es []string
				for _, e := range errs {
					es = append(es, fmt.Sprintf("%T: %.200v", e.Err, e.Err))
				}
				d["errors_of_failing_request"] = es
			}
			d["event_log_tail"] = w.Log.Tail(60)
			d["missing_link_analysis"] = analysis
			return d
		}
		switch {
		case inc != "":
			rep.Inconclusive("case %d: %s", ci, inc)
		case hungAny:
			rep.Violation(ci, "C20/request-never-finished", "system quiescent but a concurrent request is still open", detail(-1))
		default:
			failed := false
			for i, q := range rqs {
				// stand-alone reference: every link resolves (the responder holds everything)
				exp := q.full
				exp.MissingLoads = nil
				mm := CompareOutcome("C20", reqs[i], ref.Outcome{Visits: exp.Visits, Loads: exp.Loads, RemoteObtained: map[cid.Cid]bool{}}, sa)
				if mm == nil {
					continue
				}
				sig := mm.Sig
				// known-finding predicate: same scope, and every spuriously missing link is a block shared with another
				// request of this case that the requestor did not hold initially
				if sameScope && len(mm.SpuriousMissing) > 0 {
					all := true
					_, errs, _, _ := reqs[i].Snapshot()
					ms, _ := ErrKinds(errs)
					wire := w.Fab.Wire()
					// hookAt: when the responder's traversal of request id reached link k, read off the wire (the
					// message that carries the request's metadata entry for k; 0 = never). All responses to one
					// peer leave through one FIFO queue, so wire order is the order of the link tracker's decisions
					hookAt := func(id graphsync.RequestID, k string) int64 {
						for _, m := range wire {
							if m.From != B.ID {
								continue
							}
							for _, rs := range m.Responses {
								if rs.ID != id {
									continue
								}
								for _, e := range rs.Meta {
									if e.Link.String() == k {
										return m.Seq
									}
								}
							}
						}
						return 0
					}
					// firstResponseAt: when the responder accepted request id (request-hook event)
					bev := B.Events()
					firstResponseAt := func(id graphsync.RequestID) int64 {
						for _, e := range bev {
							if e.Kind == "request-hook" && e.ID == id {
								return e.Seq
							}
						}
						return 0
					}
					// terminalSentAt: when the responder put request id's terminal status on the wire; by
					// then it has stopped tracking the request's links for a while
					terminalSentAt := func(id graphsync.RequestID) int64 {
						for _, m := range wire {
							if m.From != B.ID {
								continue
							}
							for _, rs := range m.Responses {
								if rs.ID == id && rs.Status.IsTerminal() {
									return m.Seq
								}
							}
						}
						return 0
					}
					for _, m := range ms {
						k := m.Link.(interface{ String() string }).String()
						shared := false
						for kk, n := range count {
							if kk.String() == k && n > 1 && !reqHas[kk] {
								shared = true
							}
						}
						// ... and when this request's traversal reached the link, another request that had
						// already traversed it was still in progress on the responder
						tB := hookAt(reqs[i].ID, k)
						inFlight := false
						analysis = append(analysis, fmt.Sprintf("missing %s: shared=%v reached-by-this-request-at=%d", k[len(k)-8:], shared, tB))
						for _, wm := range wire {
							if wm.From != B.ID {
								continue
							}
							for _, rs := range wm.Responses {
								for _, e := range rs.Meta {
									if e.Link.String() == k {
										_, hasData := wm.Blocks[e.Link]
										analysis = append(analysis, fmt.Sprintf("   wire seq=%d delivered=%d request=%s action=%s block-in-message=%v", wm.Seq, wm.Delivered, rs.ID.String()[:8], e.Action, hasData))
									}
								}
							}
						}
						for j := range reqs {
							if j == i {
								continue
							}
							// (the order of entries on the wire is not the order of the link tracker's decisions: an
							// entry that carries block data waits for its memory reservation while a later
							// "duplicate, not sent" entry of another request goes straight into the message. So "had
							// already traversed it" is not decidable from the wire; "was being served at that moment" is)
							loadsIt := false
							for _, l := range rqs[j].full.Loads {
								if l.Link.String() == k {
									loadsIt = true
								}
							}
							started := firstResponseAt(reqs[j].ID)
							done := terminalSentAt(reqs[j].ID)
							analysis = append(analysis, fmt.Sprintf("   request %d: loads it=%v, accepted by the responder at %d, terminal status on the wire at %d", j, loadsIt, started, done))
							if loadsIt && tB != 0 && started != 0 && started <= tB && (done == 0 || done >= tB) {
								inFlight = true
							}
						}
						if !shared || !inFlight {
							all = false
						}
					}
					if all {
						sig = "C20/overlap-same-scope"
					}
				}
				rep.Violation(ci, sig, fmt.Sprintf("request %d of %d (%s): %s", i, len(rqs), class, mm.What), detail(i))
				failed = true
				break
			}
			for k := range blocks {
				needed := count[k] > 0
				if needed && !sa.Has(k) && !failed {
					rep.Violation(ci, "C20/block-not-stored", fmt.Sprintf("all requests delivered their nodes but block %s, which their traversals load, is not in the requestor store", k), detail(-1))
					failed = true
				}
			}
			rep.Nontrivial(rt.Key("c20", ci, class, len(rqs)))
			rep.SetAdd("classes", class)
			rep.Count("concurrent_requests", int64(len(rqs)))
		}
		if ci%97 == 0 {
			d := detail(-1)
			delete(d, "event_log_tail")
			rep.Sample(d)
		}
		pert.Stop()
		w.Close()
	}
	rep.Flush(true)
}

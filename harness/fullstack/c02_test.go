package fullstack

import (
	"fmt"
	"testing"
	"time"

	"github.com/ipfs/go-cid"

	"github.com/ipfs/go-graphsync"
	"github.com/ipfs/go-graphsync/donotsendfirstblocks"

	"verif/harness/fab"
	"verif/harness/ref"
	"verif/harness/rt"
	"verif/harness/store"
)

// Exchange is the result of running one request between two real nodes.
type Exchange struct {
	W        *World
	A, B     *GSNode
	Req      *Req
	Pert     *Perturber
	Hung     bool
	Inconcl  string
	SkipSent int64 // do-not-send-first-blocks value of the first New request on the wire (0 = absent)
}

// AwaitDone waits for a request to finish. If it does not finish although the
// system is sustainedly quiescent, hung=true; a watchdog expiry while the system
// is still active is inconclusive.
func AwaitDone(w *World, r *Req) (hung bool, inconclusive string) {
	select {
	case <-r.Done():
		return false, ""
	case <-time.After(15 * time.Second):
	}
	// not done: decide between hang (quiescent) and still-working (inconclusive)
	for i := 0; i < 6; i++ {
		if ok, _ := w.Q.Sustained(3 * time.Second); ok {
			select {
			case <-r.Done():
				return false, ""
			default:
				return true, ""
			}
		}
		select {
		case <-r.Done():
			return false, ""
		case <-time.After(10 * time.Second):
		}
	}
	return false, "request neither finished nor quiescent within the watchdog"
}

// AwaitDoneOrIdle waits until the request finished ("done"), or the system is quiescent for
// confirm without the request finishing ("idle"), or the watchdog fires ("inconclusive").
func AwaitDoneOrIdle(w *World, r *Req, confirm time.Duration) string {
	deadline := time.Now().Add(90 * time.Second)
	for {
		select {
		case <-r.Done():
			return "done"
		case <-time.After(2 * time.Millisecond):
		}
		if ok, _ := w.Q.Await(5, 20*time.Millisecond); ok {
			if ok2, _ := w.Q.Sustained(confirm); ok2 {
				select {
				case <-r.Done():
					return "done"
				default:
					return "idle"
				}
			}
		}
		if time.Now().After(deadline) {
			return "inconclusive"
		}
	}
}

// RunExchange runs the case's request between a real requestor and a real cooperative responder.
func RunExchange(c *Case, level int, setup func(x *Exchange)) *Exchange {
	return runExchangeFull(c, level, setup, nil)
}

func runExchangeExt(c *Case, level int, exts []graphsync.ExtensionData) *Exchange {
	return runExchangeFull(c, level, nil, exts)
}

func runExchangeFull(c *Case, level int, setup func(x *Exchange), exts []graphsync.ExtensionData) *Exchange {
	x := RunExchangeAsyncExt(c, level, setup, exts)
	x.Hung, x.Inconcl = AwaitDone(x.W, x.Req)
	if !x.Hung && x.Inconcl == "" {
		if ok, why := x.W.Quiesce(); !ok {
			x.Inconcl = "no quiescence after completion: " + why
		}
	}
	x.SkipSent = FirstSkip(x.W.Fab.Wire(), x.A.ID, x.Req.ID)
	return x
}

// RunExchangeAsync starts the exchange and returns without waiting for the request.
func RunExchangeAsync(c *Case, level int, setup func(x *Exchange)) *Exchange {
	return RunExchangeAsyncExt(c, level, setup, nil)
}

// RunExchangeAsyncExt is RunExchangeAsync with request extensions.
func RunExchangeAsyncExt(c *Case, level int, setup func(x *Exchange), exts []graphsync.ExtensionData) *Exchange {
	w := NewWorld()
	x := &Exchange{W: w}
	x.Pert = NewPerturber(c.PertSeed, level)
	sa := store.New("A.store", w.Log)
	sb := store.New("B.store", w.Log)
	Fill(sa, c.DAG, c.ReqHas)
	Fill(sb, c.DAG, c.RespHas)
	x.A = w.AddGS("A", sa, NodeOpts{})
	x.B = w.AddGS("B", sb, NodeOpts{})
	w.Fab.Link(x.A.ID, x.B.ID).Delay = x.Pert.LinkDelay()
	w.Fab.Link(x.B.ID, x.A.ID).Delay = x.Pert.LinkDelay()
	if setup != nil {
		setup(x)
	}
	x.Req = w.Request(x.A, x.B.ID, c.DAG.Root, c.Sel, exts...)
	return x
}

// FirstSkip returns the do-not-send-first-blocks value of the first New request for id sent by from.
func FirstSkip(wire []*fab.WireMsg, from interface{ String() string }, id graphsync.RequestID) int64 {
	for _, m := range wire {
		if m.From.String() != from.String() {
			continue
		}
		for _, r := range m.Requests {
			if r.ID == id && r.Type == graphsync.RequestTypeNew {
				d, ok := r.Req.Extension(graphsync.ExtensionsDoNotSendFirstBlocks)
				if !ok || d == nil {
					return 0
				}
				v, err := donotsendfirstblocks.DecodeDoNotSendFirstBlocks(d)
				if err != nil {
					return -1
				}
				return v
			}
		}
	}
	return 0
}

// Finish tears the exchange down.
func (x *Exchange) Finish() {
	x.Pert.Stop()
	x.W.Close()
}

// skipOvershoot is the known-finding predicate C02/skip-overshoot, computed from the
// reference model only: the requestor's local prefix contains loads the responder's own
// traversal does not perform (they lie below a link the responder lacks), so the skip
// count sent exceeds what the responder counts, and the failing link's responder-side
// load index is within the skipped range.
func skipOvershoot(c *Case, skipSent int64, failing []ref.Load) bool {
	if len(failing) == 0 {
		return false
	}
	respAlso := 0
	for i, l := range c.Exp.Loads {
		if i >= c.Exp.LocalBeforeFirstMiss {
			break
		}
		if l.RespReach {
			respAlso++
		}
	}
	if c.Exp.LocalBeforeFirstMiss <= respAlso {
		return false
	}
	// every failing block's first occurrence in the responder's own traversal lies within the skipped range
	for _, f := range failing {
		idx := 0
		found := false
		for _, l := range c.Exp.RespLoads {
			idx++
			if l.Link == f.Link && l.RespHas {
				found = true
				break
			}
		}
		if !found || int64(idx) > skipSent {
			return false
		}
	}
	return true
}

// samePathTwice is the known-finding predicate C02/same-path-loaded-twice: the selector makes
// the traversal load the same path more than once (e.g. a union whose members explore the
// same field), which the requestor's path-keyed traversal record cannot represent.
func samePathTwice(c *Case) bool {
	seen := map[string]bool{}
	for _, l := range c.Exp.Loads {
		if seen[l.Path] {
			return true
		}
		seen[l.Path] = true
	}
	return false
}

func hasEmptyBlock(c *Case, loads []ref.Load) bool {
	for _, l := range loads {
		if b, ok := c.DAG.Blocks[l.Link]; ok && len(b) == 0 {
			return true
		}
	}
	return false
}

// TestC02: a single request retrieves every block either peer can supply.
func TestC02(t *testing.T) {
	p := rt.Load()
	rep := rt.NewReporter(p)
	defer rep.Flush(false)
	for _, ci := range p.Cases() {
		c := GenCase(p, "c02", ci, "")
		rep.Journal("case %d blocks=%d sel=%s req=%s resp=%s", ci, len(c.DAG.Blocks), c.SelKind, c.ReqClass, c.RespClass)
		x := RunExchange(c, 1+ci%2, nil)
		rep.Eval()
		detail := func(extra map[string]any) map[string]any {
			d := c.Detail()
			prog, errs, _, _ := x.Req.Snapshot()
			var es []string
			for _, e := range errs {
				es = append(es, fmt.Sprintf("%T: %v", e.Err, e.Err))
			}
			d["delivered_nodes"] = len(prog)
			d["errors"] = es
			d["skip_sent"] = x.SkipSent
			d["event_log_tail"] = x.W.Log.Tail(60)
			for k, v := range extra {
				d[k] = v
			}
			return d
		}
		switch {
		case x.Inconcl != "":
			rep.Inconclusive("case %d: %s", ci, x.Inconcl)
		case x.Hung:
			rep.Violation(ci, "C02/request-never-finished", "system is quiescent but the request's channels are still open", detail(nil))
		default:
			if mm := CompareOutcome("C02", x.Req, c.Exp, x.A.Store); mm != nil {
				sig := mm.Sig
				fail := append(append([]ref.Load(nil), mm.SpuriousMissing...), mm.LostMissing...)
				if responderLacksRoot(c) {
					sig = "C02/responder-lacks-root"
				} else if samePathTwice(c) {
					sig = "C02/same-path-loaded-twice"
				} else if len(mm.SpuriousMissing) > 0 && skipOvershoot(c, x.SkipSent, mm.SpuriousMissing) {
					sig = "C02/skip-overshoot"
				} else if hasEmptyBlock(c, fail) {
					sig = "C02/empty-block"
				}
				rep.Violation(ci, sig, mm.What, detail(map[string]any{"failing_loads": ref.FmtLoads(fail)}))
			}
			if len(c.Exp.RemoteObtained) > 0 || len(c.Exp.MissingLoads) > 0 {
				rep.Nontrivial(rt.Key(c.DAG.Root, SelJSON(c.Sel), SortedCids(c.ReqHas), SortedCids(c.RespHas)))
			}
			rep.Count("remote_blocks_expected", int64(len(c.Exp.RemoteObtained)))
			rep.Count("missing_links_expected", int64(len(c.Exp.MissingLoads)))
			rep.Count("nodes_compared", int64(len(c.Exp.Visits)))
			rep.SetAdd("split_classes", c.ReqClass+"/"+c.RespClass)
			rep.SetAdd("selector_kinds", c.SelKind)
			for _, k := range c.DAG.Class {
				rep.SetAdd("dag_classes", k)
			}
		}
		if ci%97 == 0 {
			rep.Sample(c.Describe())
		}
		x.Finish()
	}
	rep.Flush(true)
}

var _ = cid.Undef

// responderLacksRoot is the known-finding predicate C02/responder-lacks-root, from the
// reference model only: the requestor holds the root block, the responder does not, and
// the traversal needs the network (the responder then answers content-not-found, which
// terminates a request that could have continued from the requestor's own store).
func responderLacksRoot(c *Case) bool {
	return len(c.Exp.Loads) > 0 && c.Exp.Loads[0].Source == ref.Local && !c.Exp.Loads[0].RespHas && !c.Exp.AllLocal
}

// TestC02Pinned runs, for every recorded known-finding class, the first generated cases
// that satisfy the class predicate, so that the KNOWN-FINDING lines are printed
// deterministically while the defects exist (and disappear when they are repaired).
func TestC02Pinned(t *testing.T) {
	p := rt.Load()
	rep := rt.NewReporter(p)
	defer rep.Flush(false)
	preds := []struct {
		name string
		f    func(c *Case) bool
	}{
		{"responder-lacks-root", func(c *Case) bool { return responderLacksRoot(c) && len(c.Exp.Visits) > 3 }},
		{"same-path-loaded-twice", func(c *Case) bool {
			if !samePathTwice(c) || responderLacksRoot(c) {
				return false
			}
			// the duplicated path lies inside the requestor's local prefix, which the
			// requestor must then re-verify against the responder's metadata
			n := map[string]int{}
			for i, l := range c.Exp.Loads {
				if i >= c.Exp.LocalBeforeFirstMiss {
					break
				}
				n[l.Path]++
				if n[l.Path] > 1 && !c.Exp.AllLocal {
					return true
				}
			}
			return false
		}},
		{"skip-overshoot", func(c *Case) bool {
			if responderLacksRoot(c) || samePathTwice(c) || len(c.Exp.RemoteObtained) == 0 {
				return false
			}
			respAlso := 0
			for i, l := range c.Exp.Loads {
				if i < c.Exp.LocalBeforeFirstMiss && l.RespReach {
					respAlso++
				}
			}
			return c.Exp.LocalBeforeFirstMiss > respAlso+1
		}},
	}
	for _, ci := range p.Cases() {
		pr := preds[ci%len(preds)]
		nth := ci / len(preds)
		var c *Case
		found := 0
		// directed cases are seed-independent: generated from a fixed stream; known indices are tried first
		pp := p
		pp.Seed = 1
		try := append(append([]int(nil), pinHints[pr.name]...), seq(20000)...)
		seenIdx := map[int]bool{}
		for _, idx := range try {
			if seenIdx[idx] {
				continue
			}
			seenIdx[idx] = true
			cand := GenCase(pp, "c02pin-"+pr.name, idx, "")
			if pr.f(cand) {
				if found == nth {
					c = cand
					rep.Journal("pinned %s nth=%d -> index %d", pr.name, nth, idx)
					break
				}
				found++
			}
		}
		if c == nil {
			rep.Inconclusive("no generated case satisfies the predicate of known-finding class %s", pr.name)
			continue
		}
		rep.Journal("pinned %s case %d", pr.name, c.Idx)
		x := RunExchange(c, 0, nil)
		rep.Eval()
		rep.Nontrivial(rt.Key("pin", pr.name, c.Idx))
		if x.Inconcl != "" {
			rep.Inconclusive("pinned %s: %s", pr.name, x.Inconcl)
		} else if x.Hung {
			rep.Violation(ci, "C02/request-never-finished", "system is quiescent but the request's channels are still open", c.Detail())
		} else if mm := CompareOutcome("C02", x.Req, c.Exp, x.A.Store); mm != nil {
			sig := mm.Sig
			if responderLacksRoot(c) {
				sig = "C02/responder-lacks-root"
			} else if samePathTwice(c) {
				sig = "C02/same-path-loaded-twice"
			} else if len(mm.SpuriousMissing) > 0 && skipOvershoot(c, x.SkipSent, mm.SpuriousMissing) {
				sig = "C02/skip-overshoot"
			}
			d := c.Detail()
			d["pinned_class"] = pr.name
			d["event_log_tail"] = x.W.Log.Tail(40)
			rep.Violation(ci, sig, mm.What, d)
		}
		x.Finish()
	}
	rep.Flush(true)
}

// pinHints are indices of the fixed directed-case stream known to satisfy each class predicate
// (only a speed-up: every candidate is re-checked against the predicate).
var pinHints = map[string][]int{"responder-lacks-root": {2, 22}, "same-path-loaded-twice": {4215}, "skip-overshoot": {26}}

func seq(n int) []int {
	out := make([]int, n)
	for i := range out {
		out[i] = i
	}
	return out
}

package fullstack

import (
	"fmt"
	"sync/atomic"
	"testing"

	"github.com/ipfs/go-cid"

	"github.com/ipfs/go-graphsync"
	"github.com/ipfs/go-graphsync/cidset"
	"github.com/ipfs/go-graphsync/dedupkey"
	"github.com/ipfs/go-graphsync/donotsendfirstblocks"

	"verif/harness/rt"
)

// TestC24: the requestor avoids unnecessary traffic.
func TestC24(t *testing.T) {
	p := rt.Load()
	rep := rt.NewReporter(p)
	defer rep.Flush(false)
	for _, ci := range p.Cases() {
		c := GenCase(p, "c24", ci, "prefix")
		r := p.RNG("c24x", ci)
		// user supplied extensions in a third of the cases
		var userSkip int64
		var userCids []cid.Cid
		var exts []graphsync.ExtensionData
		switch r.Intn(6) {
		case 0:
			userSkip = int64(r.Intn(len(c.Exp.Loads) + 3))
			exts = append(exts, graphsync.ExtensionData{Name: graphsync.ExtensionsDoNotSendFirstBlocks, Data: donotsendfirstblocks.EncodeDoNotSendFirstBlocks(userSkip)})
		case 1:
			set := cid.NewSet()
			for _, k := range c.FullOrder {
				if r.Intn(4) == 0 && !set.Has(k) {
					set.Add(k)
					userCids = append(userCids, k)
				}
			}
			exts = append(exts, graphsync.ExtensionData{Name: graphsync.ExtensionDoNotSendCIDs, Data: cidset.EncodeCidSet(set)})
			if r.Intn(2) == 0 {
				// together with a dedup key (what a requestor using a named persistence option sends)
				dk, _ := dedupkey.EncodeDedupKey("verif-scope")
				exts = append(exts, graphsync.ExtensionData{Name: graphsync.ExtensionDeDupByKey, Data: dk})
			}
		}
		rep.Journal("case %d blocks=%d req=%s resp=%s userSkip=%d userCids=%d", ci, len(c.DAG.Blocks), c.ReqClass, c.RespClass, userSkip, len(userCids))
		var x *Exchange
		x = runExchangeExt(c, 1, exts)
		rep.Eval()
		detail := func() map[string]any {
			d := c.Detail()
			d["user_skip"] = userSkip
			d["user_cids"] = len(userCids)
			d["skip_sent"] = x.SkipSent
			d["event_log_tail"] = x.W.Log.Tail(40)
			return d
		}
		if x.Inconcl != "" {
			rep.Inconclusive("case %d: %s", ci, x.Inconcl)
			x.Finish()
			continue
		}
		wire := x.W.Fab.Wire()
		// (a) everything local: no network activity at all
		if c.Exp.AllLocal && !c.Exp.RootMissing {
			n := atomic.LoadInt64(&x.A.Net.ConnectCalls) + atomic.LoadInt64(&x.A.Net.SenderCalls) + atomic.LoadInt64(&x.A.Net.SendCalls)
			if n != 0 || len(wire) != 0 {
				rep.Violation(ci, "C24/traffic-although-all-local", fmt.Sprintf("requestor holds every block the traversal needs but touched the network (%d connect/sender/send calls, %d wire messages)", n, len(wire)), detail())
			}
			rep.Count("all_local_cases", 1)
			rep.Nontrivial(rt.Key("local", c.DAG.Root, SelJSON(c.Sel)))
		} else {
			// (b) skip value of the first New request
			want := int64(c.Exp.LocalBeforeFirstMiss)
			if userSkip > want {
				want = userSkip
			}
			if x.SkipSent != want {
				rep.Violation(ci, "C24/skip-count", fmt.Sprintf("first request asks to skip %d leading blocks; %d were loaded locally before the first miss (user value %d)", x.SkipSent, c.Exp.LocalBeforeFirstMiss, userSkip), detail())
			}
			// user-supplied do-not-send-cids preserved
			if len(userCids) > 0 {
				ok := false
				for _, m := range wire {
					for _, rq := range m.Requests {
						if rq.ID == x.Req.ID && rq.Type == graphsync.RequestTypeNew {
							if d, has := rq.Req.Extension(graphsync.ExtensionDoNotSendCIDs); has && d != nil {
								if set, err := cidset.DecodeCidSet(d); err == nil && set.Len() == len(userCids) {
									ok = true
									for _, k := range userCids {
										if !set.Has(k) {
											ok = false
										}
									}
								}
							}
						}
					}
				}
				if !ok {
					rep.Violation(ci, "C24/user-extension-lost", "user supplied do-not-send-cids extension is not on the wire unchanged", detail())
				}
			}
			// (c) responder never transmits a block it was told to skip (all its occurrences within the skipped prefix) nor the same block twice
			occ := map[cid.Cid][]int{}
			for i, l := range c.Exp.RespLoads {
				if l.RespHas {
					occ[l.Link] = append(occ[l.Link], i+1)
				}
			}
			sent := map[cid.Cid]int{}
			for _, m := range wire {
				if m.From != x.B.ID {
					continue
				}
				for k := range m.Blocks {
					sent[k]++
				}
			}
			for k, n := range sent {
				if n > 1 {
					rep.Violation(ci, "C24/block-sent-twice", fmt.Sprintf("block %s transmitted %d times within one request", k, n), detail())
				}
				allSkipped := len(occ[k]) > 0
				for _, i := range occ[k] {
					if int64(i) > x.SkipSent {
						allSkipped = false
					}
				}
				if allSkipped {
					rep.Violation(ci, "C24/skipped-block-sent", fmt.Sprintf("block %s transmitted although all its occurrences %v lie within the %d blocks the requestor asked to skip", k, occ[k], x.SkipSent), detail())
				}
				for _, u := range userCids {
					if u == k {
						rep.Violation(ci, "C24/ignored-block-sent", fmt.Sprintf("block %s transmitted although listed in do-not-send-cids", k), detail())
					}
				}
			}
			rep.Count("blocks_on_wire", int64(len(sent)))
			if x.SkipSent > 0 {
				rep.Count("requests_with_skip", 1)
			}
			rep.Nontrivial(rt.Key(c.DAG.Root, SelJSON(c.Sel), SortedCids(c.ReqHas), SortedCids(c.RespHas), userSkip, len(userCids)))
		}
		rep.SetAdd("split_classes", c.ReqClass+"/"+c.RespClass)
		if ci%97 == 0 {
			s := c.Describe()
			s["skip_sent"] = x.SkipSent
			rep.Sample(s)
		}
		x.Finish()
	}
	rep.Flush(true)
}

package fullstack

import (
	"fmt"
	"math/rand"
	"sync"
	"testing"
	"time"

	"github.com/ipfs/go-cid"
	mh "github.com/multiformats/go-multihash"

	"github.com/ipfs/go-graphsync"
	gsmsg "github.com/ipfs/go-graphsync/message"

	"verif/harness/fab"
	"verif/harness/gen"
	"verif/harness/ref"
	"verif/harness/rt"
	"verif/harness/store"
)

var allActions = []graphsync.LinkAction{graphsync.LinkActionPresent, graphsync.LinkActionMissing, graphsync.LinkActionDuplicateNotSent, graphsync.LinkActionDuplicateDAGSkipped}
var allStatuses = []graphsync.ResponseStatusCode{10, 11, 12, 13, 14, 15, 20, 21, 30, 31, 32, 33, 34, 35}

// adversary mutates responder->requestor messages.
type adversary struct {
	mu       sync.Mutex
	r        *rand.Rand
	dag      *gen.DAG
	foreign  *gen.DAG
	cids     []cid.Cid
	fcids    []cid.Cid
	history  []gsmsg.GraphSyncMessage
	rate     int // percent of messages mutated
	Applied  map[string]int
	truncate bool
	victim   graphsync.RequestID
}

func newAdversary(r *rand.Rand, d, foreign *gen.DAG, victim graphsync.RequestID) *adversary {
	a := &adversary{r: r, dag: d, foreign: foreign, rate: 20 + r.Intn(60), Applied: map[string]int{}, victim: victim}
	for c := range d.Blocks {
		a.cids = append(a.cids, c)
	}
	for c := range foreign.Blocks {
		a.fcids = append(a.fcids, c)
	}
	sortCids(a.cids)
	sortCids(a.fcids)
	return a
}

func sortCids(cs []cid.Cid) {
	for i := 1; i < len(cs); i++ {
		for j := i; j > 0 && cs[j].KeyString() < cs[j-1].KeyString(); j-- {
			cs[j], cs[j-1] = cs[j-1], cs[j]
		}
	}
}

func (a *adversary) randLink() cid.Cid {
	switch a.r.Intn(4) {
	case 0:
		return a.fcids[a.r.Intn(len(a.fcids))]
	case 1:
		// same bytes hash under another codec
		c := a.cids[a.r.Intn(len(a.cids))]
		return cid.NewCidV1(cid.DagJSON, c.Hash())
	default:
		return a.cids[a.r.Intn(len(a.cids))]
	}
}

// mutate is installed as the Mitm of the responder->requestor link.
func (a *adversary) mutate(m gsmsg.GraphSyncMessage) []gsmsg.GraphSyncMessage {
	a.mu.Lock()
	defer a.mu.Unlock()
	a.history = append(a.history, m)
	if a.truncate {
		a.Applied["truncated-stream"]++
		return nil
	}
	if a.r.Intn(100) >= a.rate {
		return []gsmsg.GraphSyncMessage{m}
	}
	_, resps, blks := fab.Summarize(m)
	blocks := map[cid.Cid][]byte{}
	for c, b := range blks {
		blocks[c] = b
	}
	type rs struct {
		id     graphsync.RequestID
		status graphsync.ResponseStatusCode
		md     []gsmsg.GraphSyncLinkMetadatum
		exts   []graphsync.ExtensionData
	}
	var rss []rs
	for _, r := range resps {
		x := rs{id: r.ID, status: r.Status}
		for _, e := range r.Meta {
			x.md = append(x.md, gsmsg.GraphSyncLinkMetadatum{Link: e.Link, Action: e.Action})
		}
		rss = append(rss, x)
	}
	if len(rss) == 0 {
		return []gsmsg.GraphSyncMessage{m}
	}
	out := []gsmsg.GraphSyncMessage{}
	extra := []gsmsg.GraphSyncMessage{}
	nops := 1 + a.r.Intn(3)
	for i := 0; i < nops; i++ {
		t := &rss[a.r.Intn(len(rss))]
		op := a.r.Intn(16)
		switch op {
		case 0: // reorder metadata
			if len(t.md) > 1 {
				i, j := a.r.Intn(len(t.md)), a.r.Intn(len(t.md))
				t.md[i], t.md[j] = t.md[j], t.md[i]
				a.Applied["reorder-metadata"]++
			}
		case 1: // duplicate a metadata entry
			if len(t.md) > 0 {
				i := a.r.Intn(len(t.md))
				t.md = append(t.md[:i+1], t.md[i:]...)
				a.Applied["duplicate-metadata"]++
			}
		case 2: // drop a metadata entry
			if len(t.md) > 0 {
				i := a.r.Intn(len(t.md))
				t.md = append(append([]gsmsg.GraphSyncLinkMetadatum(nil), t.md[:i]...), t.md[i+1:]...)
				a.Applied["drop-metadata"]++
			}
		case 3: // insert an entry
			i := a.r.Intn(len(t.md) + 1)
			e := gsmsg.GraphSyncLinkMetadatum{Link: a.randLink(), Action: allActions[a.r.Intn(4)]}
			t.md = append(append(append([]gsmsg.GraphSyncLinkMetadatum(nil), t.md[:i]...), e), t.md[i:]...)
			a.Applied["insert-metadata"]++
		case 4: // substitute a link
			if len(t.md) > 0 {
				t.md[a.r.Intn(len(t.md))].Link = a.randLink()
				a.Applied["substitute-link"]++
			}
		case 5: // flip an action
			if len(t.md) > 0 {
				t.md[a.r.Intn(len(t.md))].Action = allActions[a.r.Intn(4)]
				a.Applied["flip-action"]++
			}
		case 6: // drop a block
			for c := range blocks {
				delete(blocks, c)
				a.Applied["drop-block"]++
				break
			}
		case 7: // add a foreign block (with or without a Present entry claiming it)
			fc := a.fcids[a.r.Intn(len(a.fcids))]
			blocks[fc] = a.foreign.Blocks[fc]
			if a.r.Intn(2) == 0 {
				t.md = append(t.md, gsmsg.GraphSyncLinkMetadatum{Link: fc, Action: graphsync.LinkActionPresent})
			}
			a.Applied["add-foreign-block"]++
		case 8: // forge: claim a true link but deliver other bytes under it (the codec rehashes, so it arrives under another CID)
			if len(t.md) > 0 {
				e := t.md[a.r.Intn(len(t.md))]
				bad := []byte(fmt.Sprintf("forged-%d", a.r.Int63()))
				h, _ := mh.Sum(bad, mh.SHA2_256, -1)
				delete(blocks, e.Link)
				blocks[cid.NewCidV1(e.Link.Prefix().Codec, h)] = bad
				a.Applied["forge-block-bytes"]++
			}
		case 9: // a genuine block of the DAG that the traversal does not need here, claimed at a random entry
			c := a.cids[a.r.Intn(len(a.cids))]
			blocks[c] = a.dag.Blocks[c]
			if len(t.md) > 0 && a.r.Intn(2) == 0 {
				t.md[a.r.Intn(len(t.md))] = gsmsg.GraphSyncLinkMetadatum{Link: c, Action: graphsync.LinkActionPresent}
			}
			a.Applied["add-unrequested-true-block"]++
		case 10: // early / contradictory status
			t.status = allStatuses[a.r.Intn(len(allStatuses))]
			a.Applied["change-status"]++
		case 11: // response under another request id
			t.id = graphsync.NewRequestID()
			a.Applied["other-request-id"]++
		case 12: // replay an earlier message afterwards
			if len(a.history) > 1 {
				extra = append(extra, a.history[a.r.Intn(len(a.history)-1)])
				a.Applied["replay-earlier-message"]++
			}
		case 13: // duplicate the whole message
			extra = append(extra, m)
			a.Applied["duplicate-message"]++
		case 14: // truncate the stream from here on
			a.truncate = true
			a.Applied["truncate-stream"]++
		case 15: // move blocks into a separate later message
			if len(blocks) > 0 {
				extra = append(extra, gsmsg.NewMessage(nil, nil, toBlocks(blocks)))
				blocks = map[cid.Cid][]byte{}
				a.Applied["move-blocks-to-later-message"]++
			}
		}
	}
	rm := map[graphsync.RequestID]gsmsg.GraphSyncResponse{}
	for _, t := range rss {
		rm[t.id] = gsmsg.NewResponse(t.id, t.status, t.md, t.exts...)
	}
	out = append(out, gsmsg.NewMessage(nil, rm, toBlocks(blocks)))
	out = append(out, extra...)
	return out
}

// checkSoundness is the C01 oracle: every commit hashes to its link and is a link the full
// reference traversal loads; delivered nodes are an order-preserving subsequence of the
// reference visits of the true DAG.
func checkSoundness(c *Case, req *Req, st *store.Store) (sig, what string) {
	needed := map[cid.Cid]bool{}
	for _, l := range c.Full.Loads {
		needed[l.Link] = true
	}
	for _, cm := range st.Commits() {
		if !cm.HashOK {
			return "C01/stored-bytes-do-not-hash-to-link", fmt.Sprintf("commit #%d stored %d bytes under %s which do not hash to it", cm.N, cm.Size, cm.Link)
		}
		if !needed[cm.Link] {
			return "C01/stored-unreachable-block", fmt.Sprintf("commit #%d stored %s, which the selector traversal of the true DAG never loads", cm.N, cm.Link)
		}
		if b, ok := c.DAG.Blocks[cm.Link]; !ok || len(b) != cm.Size {
			return "C01/stored-foreign-block", fmt.Sprintf("commit #%d stored %s which is not a block of the requested DAG", cm.N, cm.Link)
		}
	}
	prog, _, _, _ := req.Snapshot()
	j := 0
	for i, p := range prog {
		found := false
		for j < len(c.Full.Visits) {
			v := c.Full.Visits[j]
			j++
			if v.Path == p.Path && v.Digest == p.Digest && v.LastBlock == p.LastBlock {
				found = true
				break
			}
		}
		if !found {
			return "C01/delivered-node-not-in-true-traversal", fmt.Sprintf("delivered node #%d (path %q, digest %.8s, last block %s) is not a visit of the true DAG's traversal (in order)", i, p.Path, p.Digest, p.LastBlock)
		}
	}
	return "", ""
}

// TestC01: requestor only delivers and stores verified, selector-reachable data.
func TestC01(t *testing.T) {
	p := rt.Load()
	rep := rt.NewReporter(p)
	defer rep.Flush(false)
	for _, ci := range p.Cases() {
		c := GenCase(p, "c01", ci, "")
		r := p.RNG("c01x", ci)
		foreign := gen.GenDAG(r, gen.DagOpts{MinBlocks: 3, MaxBlocks: 10, Salt: fmt.Sprintf("foreign-%d", ci)})
		mode := []string{"mitm", "mitm", "mitm", "scripted", "honest"}[r.Intn(5)]
		rep.Journal("case %d mode=%s blocks=%d req=%s", ci, mode, len(c.DAG.Blocks), c.ReqClass)
		w := NewWorld()
		pert := NewPerturber(c.PertSeed, 1)
		sa := store.New("A.store", w.Log)
		Fill(sa, c.DAG, c.ReqHas)
		A := w.AddGS("A", sa, NodeOpts{})
		var adv *adversary
		var req *Req
		delivered := 0
		switch mode {
		case "mitm", "honest":
			sb := store.New("B.store", w.Log)
			all := map[cid.Cid]bool{}
			for k := range c.DAG.Blocks {
				all[k] = true
			}
			if r.Intn(3) == 0 {
				all = c.RespHas
			}
			Fill(sb, c.DAG, all)
			B := w.AddGS("B", sb, NodeOpts{})
			l := w.Fab.Link(B.ID, A.ID)
			l.Delay = pert.LinkDelay()
			if mode == "mitm" {
				adv = newAdversary(r, c.DAG, foreign, graphsync.RequestID{})
				l.Mitm = adv.mutate
			}
			req = w.Request(A, B.ID, c.DAG.Root, c.Sel)
		case "scripted":
			// a raw responder emitting generated streams unrelated to any honest run
			R := w.AddRaw("R")
			adv = newAdversary(r, c.DAG, foreign, graphsync.RequestID{})
			req = w.Request(A, R.ID, c.DAG.Root, c.Sel)
			// wait for the request to reach the raw peer (or the request to end because everything was local)
			if ok, _ := w.Quiesce(); ok {
				nmsg := 1 + r.Intn(6)
				for i := 0; i < nmsg; i++ {
					var md []gsmsg.GraphSyncLinkMetadatum
					blks := map[cid.Cid][]byte{}
					for j := 0; j < r.Intn(8); j++ {
						var k cid.Cid
						if r.Intn(3) > 0 && len(c.FullOrder) > 0 {
							k = c.FullOrder[r.Intn(len(c.FullOrder))] // plausible link
						} else {
							k = adv.randLink()
						}
						md = append(md, gsmsg.GraphSyncLinkMetadatum{Link: k, Action: allActions[r.Intn(4)]})
						if r.Intn(2) == 0 {
							if b, ok := c.DAG.Blocks[k]; ok {
								blks[k] = b
							} else if b, ok := foreign.Blocks[k]; ok {
								blks[k] = b
							}
						}
					}
					st := graphsync.PartialResponse
					if i == nmsg-1 || r.Intn(6) == 0 {
						st = allStatuses[r.Intn(len(allStatuses))]
					}
					_ = RawSendResponse(R, A.ID, []gsmsg.GraphSyncResponse{gsmsg.NewResponse(req.ID, st, md)}, blks)
					adv.Applied["scripted-message"]++
				}
				// make sure the request terminates: a final terminal status
				_ = RawSendResponse(R, A.ID, []gsmsg.GraphSyncResponse{gsmsg.NewResponse(req.ID, graphsync.RequestCompletedPartial, nil)}, nil)
			}
		}
		hung, inc := false, ""
		confirm := 150 * time.Millisecond
		if adv == nil {
			confirm = 3 * time.Second
		}
		switch AwaitDoneOrIdle(w, req, confirm) {
		case "idle":
			if adv != nil {
				// a truncated / contradictory stream may legitimately leave the request waiting for the
				// responder: soundness is still decided; cancel to finish
				req.Cancel()
				<-req.Done()
				rep.Count("requests_left_waiting_by_adversary", 1)
			} else {
				hung = true
			}
		case "inconclusive":
			inc = "request neither finished nor quiescent within the watchdog"
		}
		rep.Eval()
		if inc != "" {
			rep.Inconclusive("case %d: %s", ci, inc)
		} else if hung {
			rep.Violation(ci, "C01/request-never-finished", "honest exchange: system quiescent but the request is still open", c.Detail())
		} else {
			_, _ = w.Quiesce()
			sig, what := checkSoundness(c, req, sa)
			if sig != "" {
				d := c.Detail()
				d["mode"] = mode
				if adv != nil {
					d["mutations_applied"] = adv.Applied
				}
				d["event_log_tail"] = w.Log.Tail(60)
				rep.Violation(ci, sig, what, d)
			}
			prog, _, _, _ := req.Snapshot()
			delivered = len(prog)
			if adv != nil {
				tot := 0
				adv.mu.Lock()
				for k, v := range adv.Applied {
					rep.Count("mutation:"+k, int64(v))
					tot += v
				}
				adv.mu.Unlock()
				if tot > 0 {
					rep.Nontrivial(rt.Key(c.DAG.Root, SelJSON(c.Sel), SortedCids(c.ReqHas), mode, ci))
				}
			}
			rep.Count("nodes_delivered_and_checked", int64(delivered))
			rep.Count("commits_checked", int64(len(sa.Commits())))
			rep.SetAdd("modes", mode)
		}
		if ci%97 == 0 {
			s := c.Describe()
			s["mode"] = mode
			if adv != nil {
				s["mutations_applied"] = adv.Applied
			}
			s["nodes_delivered"] = delivered
			rep.Sample(s)
		}
		pert.Stop()
		w.Close()
	}
	rep.Flush(true)
}

var _ = ref.Local

package fullstack

import (
	"context"
	"fmt"
	"testing"
	"time"

	"github.com/ipfs/go-cid"

	"github.com/ipfs/go-graphsync"
	gsmsg "github.com/ipfs/go-graphsync/message"

	"verif/harness/gen"
	"verif/harness/rt"
	"verif/harness/store"
)

// TestC05Signals: several signals reach a response between two blocks (its traversal is parked inside a
// store read): a pause and an abort (responder API cancel, or the requestor's cancel message), in either
// order. Whatever the executor looks at first, the request must be retired: an abort is never forgotten
// behind a pause.
func TestC05Signals(t *testing.T) {
	p := rt.Load()
	rep := rt.NewReporter(p)
	defer rep.Flush(false)
	for _, ci := range p.Cases() {
		r := p.RNG("c05s", ci)
		n := 4 + r.Intn(8)
		d := gen.FlatDAG(r, n, 50+r.Intn(200), fmt.Sprintf("c05s-%d", ci))
		k := 1 + r.Intn(n-1)
		abort := []string{"responder-api-cancel", "requestor-cancel-message"}[r.Intn(2)]
		pauseFirst := r.Intn(2) == 0
		rep.Journal("case %d k=%d abort=%s pauseFirst=%v", ci, k, abort, pauseFirst)
		w := NewWorld()
		ss := store.New("S.store", w.Log)
		for kk, b := range d.Blocks {
			ss.Put(kk, b)
		}
		S := w.AddGS("S", ss, NodeOpts{})
		R := w.AddRaw("R")
		release := make(chan struct{})
		entered := make(chan struct{}, 1)
		ss.BeforeRead = func(nr int, lnk cid.Cid, path string) error {
			if nr == k {
				ss.HeldAdd(1)
				entered <- struct{}{}
				<-release
				ss.HeldAdd(-1)
			}
			return nil
		}
		id := graphsync.NewRequestID()
		_ = RawSend(R, S.ID, NewReq(id, d.Root, gen.AllSelector()))
		inc := ""
		select {
		case <-entered:
		case <-time.After(30 * time.Second):
			inc = "the traversal never reached the gate"
		}
		ctx, cancel := context.WithTimeout(context.Background(), 60*time.Second)
		doPause := func() {
			if !w.Call(func() { _ = S.GS.Pause(ctx, id) }) {
				inc = "Pause did not return"
			}
		}
		doAbort := func() {
			if abort == "responder-api-cancel" {
				if !w.Call(func() { _ = S.GS.Cancel(ctx, id) }) {
					inc = "Cancel did not return"
				}
			} else {
				_ = RawSend(R, S.ID, gsmsg.NewCancelRequest(id))
			}
		}
		if inc == "" {
			if pauseFirst {
				doPause()
				doAbort()
			} else {
				doAbort()
				doPause()
			}
			if ok, why := w.Quiesce(); !ok {
				inc = why
			}
		}
		close(release)
		left := ""
		unstable := ""
		if inc == "" {
			_, unstable = w.ConfirmStable(func() string {
				left = ""
				if st, ok := S.Impl.PeerState(R.ID).IncomingState.RequestStates[id]; ok {
					left = fmt.Sprintf("the responder still lists the request in state %s", st)
				}
				return left
			}, 2*time.Second)
		}
		if inc == "" && unstable == "" && left == "" {
			// the listener is notified by the message queue's notification goroutine: let that settle
			if ok, _ := w.Q.Sustained(300 * time.Millisecond); !ok {
				_, _ = w.Quiesce()
			}
		}
		cancel()
		rep.Eval()
		var evs []string
		for _, e := range S.Events() {
			if e.ID == id && (e.Kind == "completed" || e.Kind == "cancelled" || e.Kind == "network-error") {
				evs = append(evs, fmt.Sprintf("%s status=%s", e.Kind, e.Status))
			}
		}
		detail := map[string]any{"case": ci, "held_at_read": k, "abort": abort, "pause_before_abort": pauseFirst, "outcome_events": evs, "event_log_tail": w.Log.Tail(40)}
		switch {
		case inc != "":
			rep.Inconclusive("case %d: %s", ci, inc)
		case unstable != "":
			rep.Inconclusive("case %d: %s", ci, unstable)
		case left != "":
			rep.Violation(ci, "C05/abort-forgotten-behind-pause", fmt.Sprintf("%s and a pause were both signalled between two blocks (pause first: %v); afterwards %s and no outcome was reported (%v)", abort, pauseFirst, left, evs), detail)
		case len(evs) != 1:
			rep.Violation(ci, "C05/outcome-count", fmt.Sprintf("the aborted request was reported %d times: %v", len(evs), evs), detail)
		default:
			rep.Nontrivial(rt.Key("c05s", k, abort, pauseFirst, n))
			rep.Count("requests_retired", 1)
			rep.SetAdd("signal_orders", fmt.Sprintf("%s/pauseFirst=%v", abort, pauseFirst))
		}
		if ci%83 == 0 {
			delete(detail, "event_log_tail")
			rep.Sample(detail)
		}
		w.Close()
	}
	rep.Flush(true)
}

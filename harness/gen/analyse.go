package gen

import (
	"fmt"

	"github.com/ipld/go-ipld-prime/datamodel"
)

// Analyse is the reference analyser: it returns the list of offending
// recursions (unbounded or depth > max) anywhere in a selector spec, and the
// set of clause kinds on the path to each. ok=false if the spec has a shape
// the analyser does not know (the case is then skipped).
func Analyse(n datamodel.Node, max int64, path string, out *[]string) (ok bool) {
	if n.Kind() != datamodel.Kind_Map || n.Length() != 1 {
		return false
	}
	kn, v, _ := n.MapIterator().Next()
	k, _ := kn.AsString()
	next := func(field string) bool {
		c, err := v.LookupByString(field)
		if err != nil {
			return false
		}
		return Analyse(c, max, path+"/"+k, out)
	}
	switch k {
	case ".", "@":
		return true
	case "a", "i", "r", "~":
		return next(">")
	case "f":
		fs, err := v.LookupByString("f>")
		if err != nil {
			return false
		}
		it := fs.MapIterator()
		for !it.Done() {
			_, c, err := it.Next()
			if err != nil || !Analyse(c, max, path+"/f", out) {
				return false
			}
		}
		return true
	case "|":
		it := v.ListIterator()
		for !it.Done() {
			_, c, err := it.Next()
			if err != nil || !Analyse(c, max, path+"/|", out) {
				return false
			}
		}
		return true
	case "R":
		l, err := v.LookupByString("l")
		if err != nil || l.Kind() != datamodel.Kind_Map || l.Length() != 1 {
			return false
		}
		lk, lv, _ := l.MapIterator().Next()
		lks, _ := lk.AsString()
		switch lks {
		case "none":
			*out = append(*out, path+"/R(none)")
		case "depth":
			d, err := lv.AsInt()
			if err != nil {
				return false
			}
			if d > max {
				*out = append(*out, fmt.Sprintf("%s/R(depth=%d)", path, d))
			}
		default:
			return false
		}
		return next(":>")
	}
	return false
}

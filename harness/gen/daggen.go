package gen

import (
	"bytes"
	"fmt"
	"math/rand"

	"github.com/ipfs/go-cid"
	"github.com/ipld/go-ipld-prime/codec/dagcbor"
	"github.com/ipld/go-ipld-prime/datamodel"
	"github.com/ipld/go-ipld-prime/fluent/qp"
	cidlink "github.com/ipld/go-ipld-prime/linking/cid"
	"github.com/ipld/go-ipld-prime/node/basicnode"
	"github.com/ipld/go-ipld-prime/traversal/selector"
	"github.com/ipld/go-ipld-prime/traversal/selector/builder"
	mh "github.com/multiformats/go-multihash"
)

// DAG is a generated DAG with its complete block map (the "true DAG").
type DAG struct {
	Root   cid.Cid
	Blocks map[cid.Cid][]byte
	Order  []cid.Cid // creation order, leaves first; only blocks reachable from Root
	Keys   []string
	Class  []string  // special classes present (empty-raw-block, dup-link-in-list, shared-subdag, inline-links)
	Roots  []cid.Cid // alternative interior roots (for overlapping requests)
}

// DagOpts steer the DAG generator.
type DagOpts struct {
	MinBlocks, MaxBlocks int
	Salt                 string // makes DAGs disjoint from each other
	EmptyRawP            int    // percent chance of a zero-length raw leaf
	BigBlockP            int    // percent chance that a raw leaf is large (tens of KiB)
	Chain                bool   // force a single chain
}

// "aa" is a textual (not segment-wise) extension of "a"; long lists give indices like 1 and 10
var dagKeys = []string{"a", "b", "c", "d", "l", "aa"}

func mkCid(codec uint64, data []byte) cid.Cid {
	h, _ := mh.Sum(data, mh.SHA2_256, -1)
	return cid.NewCidV1(codec, h)
}

// GenDAG generates a DAG.
func GenDAG(r *rand.Rand, o DagOpts) *DAG {
	if o.MaxBlocks < o.MinBlocks {
		o.MaxBlocks = o.MinBlocks
	}
	target := o.MinBlocks + r.Intn(o.MaxBlocks-o.MinBlocks+1)
	all := map[cid.Cid][]byte{}
	var order []cid.Cid
	classes := map[string]bool{}
	add := func(c cid.Cid, data []byte) {
		if _, ok := all[c]; !ok {
			all[c] = data
			order = append(order, c)
		}
	}
	ctr := 0
	uniq := func() string { ctr++; return fmt.Sprintf("%s-%d-%d", o.Salt, ctr, r.Intn(1<<30)) }
	// leaves
	nLeaves := 1 + target/3
	if o.Chain {
		nLeaves = 1
	}
	for i := 0; i < nLeaves; i++ {
		if r.Intn(2) == 0 {
			var data []byte
			switch {
			case r.Intn(100) < o.EmptyRawP:
				data = []byte{}
				classes["empty-raw-block"] = true
			case r.Intn(100) < o.BigBlockP:
				data = make([]byte, 20000+r.Intn(60000))
				r.Read(data)
			default:
				data = []byte("raw:" + uniq())
			}
			add(mkCid(cid.Raw, data), data)
		} else {
			n, _ := qp.BuildMap(basicnode.Prototype.Any, 2, func(ma datamodel.MapAssembler) {
				qp.MapEntry(ma, "v", qp.String(uniq()))
				qp.MapEntry(ma, "n", qp.Int(int64(r.Intn(1000))))
			})
			var buf bytes.Buffer
			_ = dagcbor.Encode(n, &buf)
			add(mkCid(cid.DagCBOR, buf.Bytes()), buf.Bytes())
		}
	}
	// interior blocks
	pick := func() cid.Cid {
		// bias towards recently created blocks to get depth
		n := len(order)
		if r.Intn(3) == 0 {
			return order[r.Intn(n)]
		}
		w := 1 + n/3
		return order[n-1-r.Intn(w)]
	}
	var genValue func(depth int) qp.Assemble
	genList := func(depth int) qp.Assemble {
		n := 1 + r.Intn(4)
		if r.Intn(12) == 0 {
			n = 11 + r.Intn(3)
		}
		return qp.List(int64(n), func(la datamodel.ListAssembler) {
			var prev cid.Cid
			for i := 0; i < n; i++ {
				switch x := r.Intn(10); {
				case x < 6:
					c := pick()
					if prev.Defined() && r.Intn(6) == 0 {
						c = prev
						classes["dup-link-in-list"] = true
					}
					prev = c
					qp.ListEntry(la, qp.Link(cidlink.Link{Cid: c}))
				case x < 8 && depth < 2:
					classes["inline-links"] = true
					qp.ListEntry(la, genValue(depth+1))
				default:
					qp.ListEntry(la, qp.Int(int64(r.Intn(100))))
				}
			}
		})
	}
	genValue = func(depth int) qp.Assemble {
		// an inline map holding links
		n := 1 + r.Intn(3)
		return qp.Map(int64(n), func(ma datamodel.MapAssembler) {
			used := map[string]bool{}
			for i := 0; i < n; i++ {
				k := dagKeys[r.Intn(len(dagKeys))]
				if used[k] {
					continue
				}
				used[k] = true
				switch x := r.Intn(10); {
				case x < 5:
					qp.MapEntry(ma, k, qp.Link(cidlink.Link{Cid: pick()}))
				case x < 7:
					qp.MapEntry(ma, k, genList(depth))
				case x < 8 && depth < 2:
					qp.MapEntry(ma, k, genValue(depth+1))
				default:
					qp.MapEntry(ma, k, qp.String(uniq()))
				}
			}
		})
	}
	for len(order) < target+nLeaves {
		var n datamodel.Node
		if o.Chain {
			last := order[len(order)-1]
			n, _ = qp.BuildMap(basicnode.Prototype.Any, 2, func(ma datamodel.MapAssembler) {
				qp.MapEntry(ma, "a", qp.Link(cidlink.Link{Cid: last}))
				qp.MapEntry(ma, "v", qp.String(uniq()))
			})
		} else {
			nn, err := qp.BuildMap(basicnode.Prototype.Any, 3, func(ma datamodel.MapAssembler) {
				nk := 1 + r.Intn(4)
				used := map[string]bool{}
				for i := 0; i < nk; i++ {
					k := dagKeys[r.Intn(len(dagKeys))]
					if used[k] {
						continue
					}
					used[k] = true
					switch x := r.Intn(10); {
					case x < 5:
						qp.MapEntry(ma, k, qp.Link(cidlink.Link{Cid: pick()}))
					case x < 7:
						qp.MapEntry(ma, k, genList(0))
					case x < 9:
						classes["inline-links"] = true
						qp.MapEntry(ma, k, genValue(1))
					default:
						qp.MapEntry(ma, k, qp.Int(int64(r.Intn(1000))))
					}
				}
				if !used["v"] {
					qp.MapEntry(ma, "v", qp.String(uniq()))
				}
			})
			if err != nil {
				continue
			}
			n = nn
		}
		var buf bytes.Buffer
		if err := dagcbor.Encode(n, &buf); err != nil {
			continue
		}
		add(mkCid(cid.DagCBOR, buf.Bytes()), buf.Bytes())
	}
	// root: links to the last block and a few others
	rootNode, _ := qp.BuildMap(basicnode.Prototype.Any, 3, func(ma datamodel.MapAssembler) {
		qp.MapEntry(ma, "a", qp.Link(cidlink.Link{Cid: order[len(order)-1]}))
		if !o.Chain {
			qp.MapEntry(ma, "b", genList(0))
			if r.Intn(2) == 0 {
				qp.MapEntry(ma, "c", genValue(1))
			}
		}
		qp.MapEntry(ma, "v", qp.String("root-"+uniq()))
	})
	var buf bytes.Buffer
	_ = dagcbor.Encode(rootNode, &buf)
	root := mkCid(cid.DagCBOR, buf.Bytes())
	add(root, buf.Bytes())

	// keep only what is reachable from the root; detect shared sub-DAGs
	d := &DAG{Root: root, Blocks: map[cid.Cid][]byte{}, Keys: dagKeys}
	indeg := map[cid.Cid]int{}
	var walk func(c cid.Cid)
	walk = func(c cid.Cid) {
		indeg[c]++
		if _, ok := d.Blocks[c]; ok {
			return
		}
		d.Blocks[c] = all[c]
		for _, l := range LinksOf(c, all[c]) {
			walk(l)
		}
	}
	walk(root)
	for _, c := range order {
		if _, ok := d.Blocks[c]; ok {
			d.Order = append(d.Order, c)
			if indeg[c] > 1 {
				classes["shared-subdag"] = true
			}
			if c.Prefix().Codec == cid.DagCBOR && len(LinksOf(c, all[c])) > 0 && c != root {
				d.Roots = append(d.Roots, c)
			}
		}
	}
	for k := range classes {
		d.Class = append(d.Class, k)
	}
	return d
}

// LinksOf returns the links inside a block (in encounter order, with repeats).
func LinksOf(c cid.Cid, data []byte) []cid.Cid {
	if c.Prefix().Codec != cid.DagCBOR {
		return nil
	}
	nb := basicnode.Prototype.Any.NewBuilder()
	if err := dagcbor.Decode(nb, bytes.NewReader(data)); err != nil {
		return nil
	}
	var out []cid.Cid
	var rec func(n datamodel.Node)
	rec = func(n datamodel.Node) {
		switch n.Kind() {
		case datamodel.Kind_Link:
			l, _ := n.AsLink()
			out = append(out, l.(cidlink.Link).Cid)
		case datamodel.Kind_Map:
			it := n.MapIterator()
			for !it.Done() {
				_, v, err := it.Next()
				if err != nil {
					return
				}
				rec(v)
			}
		case datamodel.Kind_List:
			it := n.ListIterator()
			for !it.Done() {
				_, v, err := it.Next()
				if err != nil {
					return
				}
				rec(v)
			}
		}
	}
	rec(nb.Build())
	return out
}

// DataSelector generates a selector that actually crosses links of generated DAGs.
func DataSelector(r *rand.Rand) (datamodel.Node, string) {
	all := func(limit selector.RecursionLimit) builder.SelectorSpec {
		return ssb.ExploreRecursive(limit, ssb.ExploreAll(ssb.ExploreRecursiveEdge()))
	}
	switch x := r.Intn(20); {
	case x < 9:
		return all(selector.RecursionLimitNone()).Node(), "recursive-all"
	case x < 13:
		d := int64(1 + r.Intn(8))
		return all(selector.RecursionLimitDepth(d)).Node(), fmt.Sprintf("recursive-all-depth-%d", d)
	case x < 15:
		k := dagKeys[r.Intn(3)]
		return ssb.ExploreFields(func(efsb builder.ExploreFieldsSpecBuilder) {
			efsb.Insert(k, all(selector.RecursionLimitNone()))
		}).Node(), "field-then-all"
	case x < 17:
		k1, k2 := dagKeys[r.Intn(3)], dagKeys[r.Intn(5)]
		return ssb.ExploreUnion(
			ssb.ExploreFields(func(efsb builder.ExploreFieldsSpecBuilder) {
				efsb.Insert(k1, all(selector.RecursionLimitDepth(int64(2+r.Intn(5)))))
			}),
			ssb.ExploreFields(func(efsb builder.ExploreFieldsSpecBuilder) { efsb.Insert(k2, ssb.Matcher()) }),
		).Node(), "union-of-fields"
	case x < 18:
		return ssb.ExploreRecursive(selector.RecursionLimitDepth(int64(3+r.Intn(6))), ssb.ExploreUnion(
			ssb.ExploreFields(func(efsb builder.ExploreFieldsSpecBuilder) {
				efsb.Insert("a", ssb.ExploreRecursiveEdge())
				efsb.Insert("b", ssb.ExploreRecursiveEdge())
			}),
			ssb.ExploreIndex(int64(r.Intn(3)), ssb.ExploreRecursiveEdge()),
			ssb.ExploreRange(0, int64(1+r.Intn(3)), ssb.ExploreRecursiveEdge()),
		)).Node(), "recursive-fields-index-range"
	case x < 19:
		if r.Intn(2) == 0 {
			// several fields inserted in non-canonical key order
			ks := []string{"l", "d", "c", "b", "a"}[r.Intn(3):]
			return ssb.ExploreFields(func(efsb builder.ExploreFieldsSpecBuilder) {
				for _, k := range ks {
					efsb.Insert(k, all(selector.RecursionLimitDepth(int64(2+r.Intn(6)))))
				}
			}).Node(), "fields-in-non-canonical-order"
		}
		return ssb.ExploreRecursive(selector.RecursionLimitNone(), ssb.ExploreUnion(ssb.Matcher(), ssb.ExploreAll(ssb.ExploreRecursiveEdge()))).Node(), "recursive-all-with-matcher"
	default:
		o := SelOpts{MaxDepth: 4, Fields: dagKeys, MaxIndex: 3, Limits: []int64{1, 2, 3, 5, -1}, InterpretP: 0, RecursionP: 40}
		return GenSelector(r, o, nil), "grammar"
	}
}

// AllSelector is the unbounded explore-all recursive selector.
func AllSelector() datamodel.Node {
	return ssb.ExploreRecursive(selector.RecursionLimitNone(), ssb.ExploreAll(ssb.ExploreRecursiveEdge())).Node()
}

// AllSelectorDepth is explore-all with a depth limit.
func AllSelectorDepth(d int64) datamodel.Node {
	return ssb.ExploreRecursive(selector.RecursionLimitDepth(d), ssb.ExploreAll(ssb.ExploreRecursiveEdge())).Node()
}

// DupPathCase builds the hand-made DAG + selector of the known finding
// "same path loaded twice": a union whose two members both explore field b,
// so go-ipld-prime's traversal loads the links under b twice.
func DupPathCase() (*DAG, datamodel.Node) {
	l0 := []byte("dup-path-leaf-0")
	l1 := []byte("dup-path-leaf-1")
	c0, c1 := mkCid(cid.Raw, l0), mkCid(cid.Raw, l1)
	rootNode, _ := qp.BuildMap(basicnode.Prototype.Any, 2, func(ma datamodel.MapAssembler) {
		qp.MapEntry(ma, "b", qp.List(3, func(la datamodel.ListAssembler) {
			qp.ListEntry(la, qp.Link(cidlink.Link{Cid: c0}))
			qp.ListEntry(la, qp.Int(7))
			qp.ListEntry(la, qp.Map(1, func(ma datamodel.MapAssembler) { qp.MapEntry(ma, "l", qp.Link(cidlink.Link{Cid: c1})) }))
		}))
		qp.MapEntry(ma, "v", qp.String("dup-path-root"))
	})
	var buf bytes.Buffer
	_ = dagcbor.Encode(rootNode, &buf)
	root := mkCid(cid.DagCBOR, buf.Bytes())
	d := &DAG{Root: root, Blocks: map[cid.Cid][]byte{root: buf.Bytes(), c0: l0, c1: l1}, Order: []cid.Cid{c0, c1, root}, Keys: dagKeys}
	sel := ssb.ExploreUnion(
		ssb.ExploreFields(func(efsb builder.ExploreFieldsSpecBuilder) {
			efsb.Insert("b", ssb.ExploreRecursive(selector.RecursionLimitDepth(3), ssb.ExploreAll(ssb.ExploreRecursiveEdge())))
		}),
		ssb.ExploreFields(func(efsb builder.ExploreFieldsSpecBuilder) { efsb.Insert("b", ssb.Matcher()) }),
	).Node()
	return d, sel
}

// FlatDAG builds a root list of n links to distinct raw blocks of the given size (response
// data volume is n*size; used where a per-peer memory allowance must fill up).
func FlatDAG(r *rand.Rand, n, size int, salt string) *DAG {
	d := &DAG{Blocks: map[cid.Cid][]byte{}, Keys: dagKeys}
	var leaves []cid.Cid
	for i := 0; i < n; i++ {
		data := make([]byte, size)
		r.Read(data)
		copy(data, []byte(fmt.Sprintf("%s-%d|", salt, i)))
		c := mkCid(cid.Raw, data)
		d.Blocks[c] = data
		d.Order = append(d.Order, c)
		leaves = append(leaves, c)
	}
	rootNode, _ := qp.BuildList(basicnode.Prototype.Any, int64(n), func(la datamodel.ListAssembler) {
		for _, c := range leaves {
			qp.ListEntry(la, qp.Link(cidlink.Link{Cid: c}))
		}
	})
	var buf bytes.Buffer
	_ = dagcbor.Encode(rootNode, &buf)
	d.Root = mkCid(cid.DagCBOR, buf.Bytes())
	d.Blocks[d.Root] = buf.Bytes()
	d.Order = append(d.Order, d.Root)
	return d
}

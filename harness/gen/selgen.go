// Package gen holds the seeded generators shared by the engines.
package gen

import (
	"fmt"
	"math/rand"

	"github.com/ipld/go-ipld-prime/datamodel"
	"github.com/ipld/go-ipld-prime/node/basicnode"
	"github.com/ipld/go-ipld-prime/traversal/selector"
	"github.com/ipld/go-ipld-prime/traversal/selector/builder"
)

// SelOpts steer the grammar-based selector generator.
type SelOpts struct {
	MaxDepth   int      // nesting depth of clauses
	Fields     []string // candidate field names for ExploreFields
	MaxIndex   int      // candidate indices/ranges are drawn from [0,MaxIndex]
	Limits     []int64  // candidate recursion depth limits; -1 means "none"
	InterpretP int      // percent chance to wrap a clause in interpret-as
	RecursionP int      // percent chance that a clause is a (nested) recursion
}

// ShapeOpts are the options used for validator-oriented selectors.
func ShapeOpts() SelOpts {
	return SelOpts{
		MaxDepth:   6,
		Fields:     []string{"a", "b", "R", "l", "none", "depth", ":>", ">", "f>", "|", "~", "as", "x"},
		MaxIndex:   3,
		Limits:     []int64{0, 1, 2, 50, 99, 100},
		InterpretP: 15,
		RecursionP: 25,
	}
}

var ssb = builder.NewSelectorSpecBuilder(basicnode.Prototype.Any)

// GenSelector generates a selector spec. plant, if non-nil, is called whenever a
// recursion limit is chosen and may override it (returning ok=true).
func GenSelector(r *rand.Rand, o SelOpts, plant func(nesting int, path string) (int64, bool)) datamodel.Node {
	return genSel(r, o, 0, false, false, "", plant).Node()
}

func limitOf(v int64) selector.RecursionLimit {
	if v < 0 {
		return selector.RecursionLimitNone()
	}
	return selector.RecursionLimitDepth(v)
}

func genSel(r *rand.Rand, o SelOpts, depth int, inRec bool, edgeOK bool, path string, plant func(int, string) (int64, bool)) builder.SelectorSpec {
	// an edge is only legal as the "next" of an all/fields/index/range clause inside a recursion
	leaf := func() builder.SelectorSpec {
		if inRec && edgeOK && r.Intn(2) == 0 {
			return ssb.ExploreRecursiveEdge()
		}
		return ssb.Matcher()
	}
	if depth >= o.MaxDepth {
		return leaf()
	}
	wrap := func(s builder.SelectorSpec) builder.SelectorSpec {
		if r.Intn(100) < o.InterpretP {
			return ssb.ExploreInterpretAs([]string{"unixfs", "unixfs-preload", "verif-unknown"}[r.Intn(3)], s)
		}
		return s
	}
	if r.Intn(100) < o.RecursionP {
		lim := o.Limits[r.Intn(len(o.Limits))]
		p := path + "/R"
		if plant != nil {
			if v, ok := plant(depth, p); ok {
				lim = v
			}
		}
		body := genRecBody(r, o, depth+1, p, plant)
		return wrap(ssb.ExploreRecursive(limitOf(lim), body))
	}
	switch r.Intn(8) {
	case 0:
		return leaf()
	case 1:
		return wrap(ssb.ExploreAll(genSel(r, o, depth+1, inRec, true, path+"/a", plant)))
	case 2:
		n := 1 + r.Intn(3)
		return wrap(ssb.ExploreFields(func(efsb builder.ExploreFieldsSpecBuilder) {
			used := map[string]bool{}
			for i := 0; i < n; i++ {
				f := o.Fields[r.Intn(len(o.Fields))]
				if used[f] {
					continue
				}
				used[f] = true
				efsb.Insert(f, genSel(r, o, depth+1, inRec, true, path+"/f", plant))
			}
		}))
	case 3:
		return wrap(ssb.ExploreIndex(int64(r.Intn(o.MaxIndex+1)), genSel(r, o, depth+1, inRec, true, path+"/i", plant)))
	case 4:
		s := int64(r.Intn(o.MaxIndex + 1))
		return wrap(ssb.ExploreRange(s, s+1+int64(r.Intn(o.MaxIndex+1)), genSel(r, o, depth+1, inRec, true, path+"/r", plant)))
	case 5, 6:
		n := 1 + r.Intn(3)
		ms := make([]builder.SelectorSpec, n)
		for i := range ms {
			ms[i] = genSel(r, o, depth+1, inRec, false, fmt.Sprintf("%s/|", path), plant)
		}
		return wrap(ssb.ExploreUnion(ms...))
	default:
		return wrap(ssb.ExploreInterpretAs("unixfs", genSel(r, o, depth+1, inRec, false, path+"/~", plant)))
	}
}

// genRecBody generates a recursion body that is guaranteed to contain an edge.
func genRecBody(r *rand.Rand, o SelOpts, depth int, path string, plant func(int, string) (int64, bool)) builder.SelectorSpec {
	edgePart := ssb.ExploreAll(ssb.ExploreRecursiveEdge())
	switch r.Intn(4) {
	case 0:
		return edgePart
	case 1:
		return ssb.ExploreUnion(ssb.Matcher(), edgePart)
	case 2:
		return ssb.ExploreUnion(genSel(r, o, depth+1, true, false, path+"/|", plant), edgePart)
	default:
		return ssb.ExploreUnion(edgePart, genSel(r, o, depth+1, true, false, path+"/|", plant), genSel(r, o, depth+1, true, false, path+"/|", plant))
	}
}

// GenChain generates a linear chain of n nested clauses of random kinds
// (including bounded recursions) ending in inner.
func GenChain(r *rand.Rand, n int, inner func(inRec bool) builder.SelectorSpec) datamodel.Node {
	return genChain(r, n, false, inner).Node()
}

func genChain(r *rand.Rand, n int, inRec bool, inner func(inRec bool) builder.SelectorSpec) builder.SelectorSpec {
	if n <= 0 {
		return inner(inRec)
	}
	switch r.Intn(7) {
	case 0:
		return ssb.ExploreAll(genChain(r, n-1, inRec, inner))
	case 1:
		return ssb.ExploreIndex(int64(r.Intn(3)), genChain(r, n-1, inRec, inner))
	case 2:
		return ssb.ExploreRange(0, int64(1+r.Intn(3)), genChain(r, n-1, inRec, inner))
	case 3:
		return ssb.ExploreFields(func(efsb builder.ExploreFieldsSpecBuilder) {
			efsb.Insert([]string{"a", "R", "l", ">"}[r.Intn(4)], genChain(r, n-1, inRec, inner))
		})
	case 4:
		if r.Intn(2) == 0 {
			return ssb.ExploreUnion(ssb.Matcher(), genChain(r, n-1, inRec, inner))
		}
		return ssb.ExploreUnion(genChain(r, n-1, inRec, inner), ssb.Matcher())
	case 5:
		return ssb.ExploreInterpretAs("unixfs", genChain(r, n-1, inRec, inner))
	default:
		return ssb.ExploreRecursive(selector.RecursionLimitDepth(int64(r.Intn(101))), ssb.ExploreUnion(ssb.ExploreAll(ssb.ExploreRecursiveEdge()), genChain(r, n-1, true, inner)))
	}
}

// Recursion builds a minimal recursive clause with the given limit (-1 = none).
func Recursion(limit int64) builder.SelectorSpec {
	return ssb.ExploreRecursive(limitOf(limit), ssb.ExploreAll(ssb.ExploreRecursiveEdge()))
}

// MatcherSpec returns a matcher clause.
func MatcherSpec() builder.SelectorSpec { return ssb.Matcher() }

// Package mon is the shared monitor state: one global logical clock, an
// append-only event log per execution, and the quiescence detector.
package mon

import (
	"fmt"
	"runtime"
	"sync"
	"sync/atomic"
	"time"

	"github.com/ipfs/go-graphsync/verifhook"
)

var clock int64

// Tick advances and returns the global logical clock. Every observable event
// of an execution (wire, store, hook, consumer, verifhook) ticks it.
func Tick() int64 { return atomic.AddInt64(&clock, 1) }

// Now returns the current value of the logical clock.
func Now() int64 { return atomic.LoadInt64(&clock) }

// Event is one recorded event.
type Event struct {
	Seq  int64  `json:"seq"`
	Kind string `json:"kind"`
	Who  string `json:"who,omitempty"`
	Info string `json:"info,omitempty"`
}

// Log is an append-only event log.
type Log struct {
	mu  sync.Mutex
	evs []Event
}

// Add appends an event, stamping it with the global clock.
func (l *Log) Add(kind, who, format string, a ...any) int64 {
	s := Tick()
	info := format
	if len(a) > 0 {
		info = fmt.Sprintf(format, a...)
	}
	l.mu.Lock()
	l.evs = append(l.evs, Event{s, kind, who, info})
	l.mu.Unlock()
	return s
}

// Snapshot returns a copy of the log.
func (l *Log) Snapshot() []Event {
	l.mu.Lock()
	defer l.mu.Unlock()
	return append([]Event(nil), l.evs...)
}

// Tail returns the last n events formatted.
func (l *Log) Tail(n int) []string {
	evs := l.Snapshot()
	if len(evs) > n {
		evs = evs[len(evs)-n:]
	}
	out := make([]string, len(evs))
	for i, e := range evs {
		out[i] = fmt.Sprintf("%d %s %s %s", e.Seq, e.Kind, e.Who, e.Info)
	}
	return out
}

// IdleFn reports whether one component is logically idle, with a reason when not.
type IdleFn func() (bool, string)

// Quiescer decides logical quiescence from a set of component predicates, the
// tag-guarded busy counters and the stability of the global clock.
type Quiescer struct {
	BusyBase int64 // busy-counter value when the execution started (normally 0)
	Preds    []IdleFn
	Barrier  func() // actor-mailbox barrier (round trip through the manager loops); may be nil
	Stalled  func() int64 // senders deliberately blocked inside the network (each pins one message queue); may be nil
}

var liveQueues, queueExits, startingQueues int64

// QueuesStarting returns the number of message queues whose run loop was spawned but has not begun to run.
func QueuesStarting() int64 { return atomic.LoadInt64(&startingQueues) }

// QueueExits returns how many message-queue run loops have exited so far in this process.
func QueueExits() int64 { return atomic.LoadInt64(&queueExits) }

// LiveQueues returns the number of message-queue run loops that have started and not yet exited.
func LiveQueues() int64 { return atomic.LoadInt64(&liveQueues) }

// ExtraSink, if set, receives every verifhook event as well.
var ExtraSink atomic.Value // func(point string, kv ...any)

func init() {
	// hooks tick the global clock, so in-flight internal work is never mistaken for idleness
	verifhook.SetEventSink(func(point string, kv ...any) {
		if point != "tq.tick" { // timer rounds of idle workers are not progress
			Tick()
		}
		switch point {
		case "mq.startup":
			// counted from Startup(), not from the first instruction of the run loop: a goroutine that
			// was spawned but has not run yet is invisible otherwise, and one left over from a finished
			// execution would enter its busy section while the next execution takes its baseline
			atomic.AddInt64(&liveQueues, 1)
			atomic.AddInt64(&startingQueues, 1)
		case "mq.run.enter":
			atomic.AddInt64(&startingQueues, -1)
		case "mq.run.exit":
			atomic.AddInt64(&liveQueues, -1)
			atomic.AddInt64(&queueExits, 1)
		}
		if f, ok := ExtraSink.Load().(func(string, ...any)); ok && f != nil {
			f(point, kv...)
		}
	})
}

// AwaitTeardown waits until every message queue run loop has exited and the
// busy counter is back to zero (after an execution's context was cancelled).
func AwaitTeardown(d time.Duration) bool {
	deadline := time.Now().Add(d)
	for {
		if LiveQueues() == 0 && verifhook.BusyCount() == 0 {
			time.Sleep(200 * time.Microsecond)
			if LiveQueues() == 0 && verifhook.BusyCount() == 0 {
				return true
			}
		}
		if time.Now().After(deadline) {
			return false
		}
		time.Sleep(200 * time.Microsecond)
	}
}

// idleOnce evaluates the logical predicate once.
func (q *Quiescer) idleOnce() (bool, string) {
	// Stalled reports senders that are deliberately blocked inside the network: each one pins one
	// message queue in sendMessage (busy +1) and that queue may keep queued messages.
	if n := QueuesStarting(); n > 0 {
		return false, fmt.Sprintf("%d message queue run loop(s) spawned but not running yet", n)
	}
	excused := int64(0)
	if q.Stalled != nil {
		excused = q.Stalled()
	}
	if n := verifhook.BusyCount() - q.BusyBase - excused; n != 0 {
		return false, fmt.Sprintf("busy counter %d", n)
	}
	if excused == 0 {
		if verifhook.ProbesBusy() {
			return false, "a message queue has queued messages"
		}
	} else if int64(verifhook.ProbesBusyCount()) > excused {
		return false, "a message queue that is not stalled has queued messages"
	}
	for _, p := range q.Preds {
		if ok, why := p(); !ok {
			return false, why
		}
	}
	return true, ""
}

// Await waits until the system is logically quiescent: predicate true and the
// global clock / hook step counter unchanged across k consecutive probes (with
// the mailbox barrier in between). Returns false with the last reason if the
// wall-clock watchdog fires first (=> inconclusive, never a verdict).
func (q *Quiescer) Await(k int, watchdog time.Duration) (bool, string) {
	deadline := time.Now().Add(watchdog)
	stable := 0
	var lastClock, lastSteps int64 = -1, -1
	why := ""
	for i := 0; ; i++ {
		if q.Barrier != nil {
			q.Barrier()
		}
		ok, w := q.idleOnce()
		c, s := Now(), verifhook.Steps()
		if ok && c == lastClock && s == lastSteps {
			stable++
			if stable >= k {
				return true, ""
			}
		} else {
			stable = 0
			if !ok {
				why = w
			} else {
				why = "events still arriving"
			}
		}
		lastClock, lastSteps = c, s
		if time.Now().After(deadline) {
			return false, why
		}
		if i < 20 {
			runtime.Gosched()
			time.Sleep(100 * time.Microsecond)
		} else {
			time.Sleep(time.Millisecond)
		}
	}
}

// Sustained reports whether the system stays quiescent (predicate true, no
// event at all) for the whole duration d: used before declaring a hang.
func (q *Quiescer) Sustained(d time.Duration) (bool, string) {
	if ok, why := q.Await(5, 60*time.Second); !ok {
		return false, why
	}
	start := time.Now()
	c0, s0 := Now(), verifhook.Steps()
	for time.Since(start) < d {
		t0 := time.Now()
		time.Sleep(5 * time.Millisecond)
		if late := time.Since(t0) - 5*time.Millisecond; late > 100*time.Millisecond {
			// the machine is so busy that even this probe was not scheduled in time: goroutines of the
			// system under test may be starved as well, silence proves nothing
			return false, fmt.Sprintf("probe scheduled %v late: machine overloaded, window void", late)
		}
		if q.Barrier != nil {
			q.Barrier()
		}
		if ok, why := q.idleOnce(); !ok {
			return false, why
		}
		if Now() != c0 || verifhook.Steps() != s0 {
			return false, "events arrived during the sustained-quiescence window"
		}
	}
	return true, ""
}

// Package fab is a scriptable in-memory implementation of go-graphsync's
// network.GraphSyncNetwork. Unmodified impl.New instances and scripted raw
// peers talk through it; every message is encoded with the real v2 ToNet and
// decoded with the real FromNet, stamped with the global logical clock and
// appended to the wire log. Links support delays, gates, send failures, stalls
// and man-in-the-middle rewriting.
package fab

import (
	"bytes"
	"context"
	"errors"
	"fmt"
	"sync"
	"sync/atomic"
	"time"

	"github.com/ipfs/go-cid"
	"github.com/libp2p/go-libp2p/core/peer"
	mh "github.com/multiformats/go-multihash"

	"github.com/ipfs/go-graphsync"
	gsmsg "github.com/ipfs/go-graphsync/message"
	gsmsgv2 "github.com/ipfs/go-graphsync/message/v2"
	gsnet "github.com/ipfs/go-graphsync/network"

	"verif/harness/mon"
)

// PeerID derives a deterministic peer id from a name.
func PeerID(name string) peer.ID {
	h, _ := mh.Sum([]byte("verif-peer-"+name), mh.SHA2_256, -1)
	return peer.ID(h)
}

// ReqSummary / RespSummary / WireMsg are the decoded summaries kept in the wire log.
type ReqSummary struct {
	ID   graphsync.RequestID
	Type graphsync.RequestType
	Req  gsmsg.GraphSyncRequest
}
type MetaEntry struct {
	Link   cid.Cid
	Action graphsync.LinkAction
}
type RespSummary struct {
	ID     graphsync.RequestID
	Status graphsync.ResponseStatusCode
	Meta   []MetaEntry
	Exts   []graphsync.ExtensionName
	Resp   gsmsg.GraphSyncResponse
}
type WireMsg struct {
	Seq       int64 // logical clock at send
	From, To  peer.ID
	Bytes     int
	Requests  []ReqSummary
	Responses []RespSummary
	Blocks    map[cid.Cid][]byte
	Delivered int64 // logical clock at delivery (0 = not delivered)
	Dropped   bool
	Msg       gsmsg.GraphSyncMessage
}

// Summarize builds the decoded summary of a message.
func Summarize(m gsmsg.GraphSyncMessage) ([]ReqSummary, []RespSummary, map[cid.Cid][]byte) {
	var rq []ReqSummary
	for _, r := range m.Requests() {
		rq = append(rq, ReqSummary{r.ID(), r.Type(), r})
	}
	var rs []RespSummary
	for _, r := range m.Responses() {
		s := RespSummary{ID: r.RequestID(), Status: r.Status(), Exts: r.ExtensionNames(), Resp: r}
		r.Metadata().Iterate(func(c cid.Cid, a graphsync.LinkAction) { s.Meta = append(s.Meta, MetaEntry{c, a}) })
		rs = append(rs, s)
	}
	bl := map[cid.Cid][]byte{}
	for _, b := range m.Blocks() {
		bl[b.Cid()] = b.RawData()
	}
	return rq, rs, bl
}

// Fabric is the in-memory network.
type Fabric struct {
	mu        sync.Mutex
	nodes     map[peer.ID]*Node
	links     map[[2]peer.ID]*Link
	wire      []*WireMsg
	inflight  int64 // queued-but-undelivered messages + senders inside SendMsg
	held      int64 // of those: deliberately held at a closed gate or stalled
	Log       *mon.Log
	mh        *gsmsgv2.MessageHandler
	closed    chan struct{}
	connected map[[2]peer.ID]bool
}

// New creates a fabric.
func New(log *mon.Log) *Fabric {
	return &Fabric{nodes: map[peer.ID]*Node{}, links: map[[2]peer.ID]*Link{}, Log: log, mh: gsmsgv2.NewMessageHandler(), closed: make(chan struct{}), connected: map[[2]peer.ID]bool{}}
}

// Close releases every goroutine blocked in the fabric.
func (f *Fabric) Close() {
	select {
	case <-f.closed:
	default:
		close(f.closed)
	}
	f.mu.Lock()
	ls := make([]*Link, 0, len(f.links))
	for _, l := range f.links {
		ls = append(ls, l)
	}
	f.mu.Unlock()
	for _, l := range ls {
		l.OpenGate()
		l.Unstall()
	}
}

// Idle reports whether no message is in flight except those deliberately held.
func (f *Fabric) Idle() (bool, string) {
	in, h := atomic.LoadInt64(&f.inflight), atomic.LoadInt64(&f.held)
	if in-h > 0 {
		return false, fmt.Sprintf("fabric: %d message(s) in flight (%d held on purpose)", in, h)
	}
	return true, ""
}

// Wire returns a snapshot of the wire log.
func (f *Fabric) Wire() []*WireMsg {
	f.mu.Lock()
	defer f.mu.Unlock()
	return append([]*WireMsg(nil), f.wire...)
}

// ConnMgr records Protect/Unprotect calls.
type ConnMgr struct {
	mu   sync.Mutex
	tags map[string]int // peer|tag -> protect count - unprotect count
	log  []string
}

func (c *ConnMgr) Protect(p peer.ID, tag string) {
	mon.Tick()
	c.mu.Lock()
	c.tags[string(p)+"|"+tag]++
	c.log = append(c.log, "protect "+tag)
	c.mu.Unlock()
}
func (c *ConnMgr) Unprotect(p peer.ID, tag string) bool {
	mon.Tick()
	c.mu.Lock()
	defer c.mu.Unlock()
	k := string(p) + "|" + tag
	c.log = append(c.log, "unprotect "+tag)
	if c.tags[k] > 0 {
		c.tags[k]--
		if c.tags[k] == 0 {
			delete(c.tags, k)
		}
		return true
	}
	c.tags[k+"|unbalanced-unprotect"]++
	return false
}

// Outstanding returns the tags still protected (and unbalanced unprotects).
func (c *ConnMgr) Outstanding() map[string]int {
	c.mu.Lock()
	defer c.mu.Unlock()
	out := map[string]int{}
	for k, v := range c.tags {
		out[k] = v
	}
	return out
}

// Received is a message received by a raw peer.
type Received struct {
	Seq  int64
	From peer.ID
	Msg  gsmsg.GraphSyncMessage
	Err  error
}

// Node is one endpoint of the fabric; it implements gsnet.GraphSyncNetwork.
type Node struct {
	f    *Fabric
	ID   peer.ID
	Name string
	CM   *ConnMgr

	mu       sync.Mutex
	recv     gsnet.Receiver
	received []Received // raw peers: everything received
	Errors   []error    // receive errors
	// fault injection on the sending side
	ConnectErr   func(to peer.ID, n int) error
	NewSenderErr func(to peer.ID, n int) error
	nConnect     map[peer.ID]int
	nSender      map[peer.ID]int
	// counters
	ConnectCalls, SenderCalls, SendCalls int64
}

// AddNode adds an endpoint.
func (f *Fabric) AddNode(name string) *Node {
	n := &Node{f: f, ID: PeerID(name), Name: name, CM: &ConnMgr{tags: map[string]int{}}, nConnect: map[peer.ID]int{}, nSender: map[peer.ID]int{}}
	f.mu.Lock()
	f.nodes[n.ID] = n
	f.mu.Unlock()
	return n
}

// NameOf returns the name of a peer.
func (f *Fabric) NameOf(p peer.ID) string {
	f.mu.Lock()
	defer f.mu.Unlock()
	if n, ok := f.nodes[p]; ok {
		return n.Name
	}
	return p.String()
}

func (n *Node) SetDelegate(r gsnet.Receiver) {
	n.mu.Lock()
	n.recv = r
	n.mu.Unlock()
}

func (n *Node) receiver() gsnet.Receiver {
	n.mu.Lock()
	defer n.mu.Unlock()
	return n.recv
}

func (n *Node) ConnectionManager() gsnet.ConnManager { return n.CM }

// ConnectTo establishes the (logical) connection; both ends are notified once.
func (n *Node) ConnectTo(ctx context.Context, to peer.ID) error {
	atomic.AddInt64(&n.ConnectCalls, 1)
	n.mu.Lock()
	k := n.nConnect[to]
	n.nConnect[to]++
	fe := n.ConnectErr
	n.mu.Unlock()
	n.f.Log.Add("connect", n.Name, "to=%s attempt=%d", n.f.NameOf(to), k)
	if fe != nil {
		if err := fe(to, k); err != nil {
			return err
		}
	}
	n.f.mu.Lock()
	_, known := n.f.nodes[to]
	n.f.mu.Unlock()
	if !known {
		return fmt.Errorf("fabric: unknown peer")
	}
	n.f.Connect(n.ID, to)
	return nil
}

// Connect marks two peers connected and delivers Connected notifications once.
func (f *Fabric) Connect(a, b peer.ID) {
	f.mu.Lock()
	k := [2]peer.ID{a, b}
	if a > b {
		k = [2]peer.ID{b, a}
	}
	already := f.connected[k]
	f.connected[k] = true
	na, nb := f.nodes[a], f.nodes[b]
	f.mu.Unlock()
	if already {
		return
	}
	if r := na.receiver(); r != nil {
		r.Connected(b)
	}
	if r := nb.receiver(); r != nil {
		r.Connected(a)
	}
}

// Disconnect delivers Disconnected notifications to both ends.
func (f *Fabric) Disconnect(a, b peer.ID) {
	f.mu.Lock()
	k := [2]peer.ID{a, b}
	if a > b {
		k = [2]peer.ID{b, a}
	}
	was := f.connected[k]
	delete(f.connected, k)
	na, nb := f.nodes[a], f.nodes[b]
	f.mu.Unlock()
	if !was {
		return
	}
	f.Log.Add("disconnect", na.Name, "peer=%s", nb.Name)
	if r := na.receiver(); r != nil {
		r.Disconnected(b)
	}
	if r := nb.receiver(); r != nil {
		r.Disconnected(a)
	}
}

// Link returns (creating it if needed) the directed link from -> to.
func (f *Fabric) Link(from, to peer.ID) *Link {
	f.mu.Lock()
	defer f.mu.Unlock()
	k := [2]peer.ID{from, to}
	l, ok := f.links[k]
	if !ok {
		l = &Link{f: f, from: from, to: to, gateOpen: true}
		l.cond = sync.NewCond(&l.mu)
		f.links[k] = l
		go l.deliverLoop()
	}
	return l
}

// StalledSenders returns how many senders are blocked in SendMsg on stalled links.
func (f *Fabric) StalledSenders() int64 {
	f.mu.Lock()
	defer f.mu.Unlock()
	n := int64(0)
	for _, l := range f.links {
		n += l.StalledSenders()
	}
	return n
}

// Link is a directed FIFO link with controls.
type Link struct {
	f        *Fabric
	from, to peer.ID
	mu       sync.Mutex
	cond     *sync.Cond
	queue    []*queued
	gateOpen bool
	passN    int // when the gate is closed: let this many more messages through
	stalled  bool
	nStalled int64
	sendN    int // number of SendMsg attempts so far

	// SendErr decides whether the n-th SendMsg attempt (0-based) on this link fails.
	SendErr func(n int, m gsmsg.GraphSyncMessage) error
	// Mitm may rewrite/drop/duplicate a message before it is queued for delivery.
	Mitm func(m gsmsg.GraphSyncMessage) []gsmsg.GraphSyncMessage
	// Delay is drawn before each delivery.
	Delay func() time.Duration
	// OnDeliver is called (on the delivery goroutine) just before a message is handed to the receiver.
	OnDeliver func(w *WireMsg)
	// AfterDeliver is called after the receiver returned.
	AfterDeliver func(w *WireMsg)

	delivered int
	heldQ     int64
}

type queued struct {
	w   *WireMsg
	raw []byte
}

// CloseGate holds all further deliveries on this link (pass lets n more through first).
func (l *Link) CloseGate(pass int) {
	l.mu.Lock()
	l.gateOpen = false
	l.passN = pass
	l.recountHeld()
	l.mu.Unlock()
}

// Pass lets n more messages through a closed gate.
func (l *Link) Pass(n int) {
	l.mu.Lock()
	l.passN += n
	l.recountHeld()
	l.cond.Broadcast()
	l.mu.Unlock()
}

// OpenGate releases the link.
func (l *Link) OpenGate() {
	l.mu.Lock()
	l.gateOpen = true
	l.recountHeld()
	l.cond.Broadcast()
	l.mu.Unlock()
}

// Queued returns the number of undelivered messages on the link.
// SetSendErr installs SendErr under the link's lock (for use while traffic is flowing).
func (l *Link) SetSendErr(f func(n int, m gsmsg.GraphSyncMessage) error) {
	l.mu.Lock()
	l.SendErr = f
	l.mu.Unlock()
}

func (l *Link) Queued() int {
	l.mu.Lock()
	defer l.mu.Unlock()
	return len(l.queue)
}

// Delivered returns the number of messages delivered so far.
func (l *Link) Delivered() int {
	l.mu.Lock()
	defer l.mu.Unlock()
	return l.delivered
}

// heldNow is this link's contribution to Fabric.held; must hold l.mu.
func (l *Link) recountHeld() {
	h := int64(0)
	if !l.gateOpen && l.passN == 0 {
		h = int64(len(l.queue))
	}
	atomic.AddInt64(&l.f.held, h-l.heldQ)
	l.heldQ = h
}

// Stall makes SendMsg on this link block until Unstall (or ctx/fabric end).
func (l *Link) Stall() {
	l.mu.Lock()
	l.stalled = true
	l.mu.Unlock()
}

// Unstall releases stalled senders.
func (l *Link) Unstall() {
	l.mu.Lock()
	l.stalled = false
	l.cond.Broadcast()
	l.mu.Unlock()
}

// StalledSenders returns how many senders are blocked in SendMsg on this link.
func (l *Link) StalledSenders() int64 { return atomic.LoadInt64(&l.nStalled) }

func (l *Link) deliverLoop() {
	for {
		l.mu.Lock()
		for len(l.queue) == 0 || (!l.gateOpen && l.passN == 0) {
			select {
			case <-l.f.closed:
				l.mu.Unlock()
				return
			default:
			}
			l.cond.Wait()
		}
		q := l.queue[0]
		l.queue = l.queue[1:]
		if !l.gateOpen {
			l.passN--
		}
		l.recountHeld()
		delay := l.Delay
		od, ad := l.OnDeliver, l.AfterDeliver
		l.mu.Unlock()
		select {
		case <-l.f.closed:
			atomic.AddInt64(&l.f.inflight, -1)
			return
		default:
		}
		if delay != nil {
			if d := delay(); d > 0 {
				time.Sleep(d)
			}
		}
		l.f.mu.Lock()
		dst := l.f.nodes[l.to]
		l.f.mu.Unlock()
		if od != nil {
			od(q.w)
		}
		msg, err := l.f.mh.FromNet(l.from, bytes.NewReader(q.raw))
		q.w.Delivered = l.f.Log.Add("deliver", dst.Name, "from=%s wire=%d", l.f.NameOf(l.from), q.w.Seq)
		if r := dst.receiver(); r != nil {
			if err != nil {
				r.ReceiveError(l.from, err)
			} else {
				r.ReceiveMessage(context.Background(), l.from, msg)
			}
		} else {
			dst.mu.Lock()
			dst.received = append(dst.received, Received{Seq: q.w.Delivered, From: l.from, Msg: msg, Err: err})
			dst.mu.Unlock()
		}
		l.mu.Lock()
		l.delivered++
		l.mu.Unlock()
		if ad != nil {
			ad(q.w)
		}
		mon.Tick()
		atomic.AddInt64(&l.f.inflight, -1)
	}
}

// ReceivedMsgs returns what a raw peer has received so far.
func (n *Node) ReceivedMsgs() []Received {
	n.mu.Lock()
	defer n.mu.Unlock()
	return append([]Received(nil), n.received...)
}

type sender struct {
	n  *Node
	to peer.ID
}

func (s *sender) SendMsg(ctx context.Context, m gsmsg.GraphSyncMessage) error {
	return s.n.send(ctx, s.to, m)
}
func (s *sender) Close() error { mon.Tick(); return nil }
func (s *sender) Reset() error { mon.Tick(); return nil }

func (n *Node) NewMessageSender(ctx context.Context, to peer.ID, _ gsnet.MessageSenderOpts) (gsnet.MessageSender, error) {
	atomic.AddInt64(&n.SenderCalls, 1)
	n.mu.Lock()
	k := n.nSender[to]
	n.nSender[to]++
	fe := n.NewSenderErr
	n.mu.Unlock()
	mon.Tick()
	if fe != nil {
		if err := fe(to, k); err != nil {
			return nil, err
		}
	}
	return &sender{n, to}, nil
}

func (n *Node) SendMessage(ctx context.Context, to peer.ID, m gsmsg.GraphSyncMessage) error {
	return n.send(ctx, to, m)
}

// Send is used by raw peers (scripted) to emit a message.
func (n *Node) Send(to peer.ID, m gsmsg.GraphSyncMessage) error {
	n.f.Connect(n.ID, to)
	return n.send(context.Background(), to, m)
}

// ErrInjected is returned by injected send failures.
var ErrInjected = errors.New("fabric: injected send failure")

func (n *Node) send(ctx context.Context, to peer.ID, m gsmsg.GraphSyncMessage) error {
	atomic.AddInt64(&n.SendCalls, 1)
	f := n.f
	l := f.Link(n.ID, to)
	atomic.AddInt64(&f.inflight, 1)
	// stall
	l.mu.Lock()
	attempt := l.sendN
	l.sendN++
	if l.stalled {
		atomic.AddInt64(&l.nStalled, 1)
		atomic.AddInt64(&f.held, 1)
		f.Log.Add("send-stalled", n.Name, "to=%s", f.NameOf(to))
		done := make(chan struct{})
		go func() {
			select {
			case <-ctx.Done():
			case <-f.closed:
			case <-done:
			}
			l.mu.Lock()
			l.cond.Broadcast()
			l.mu.Unlock()
		}()
		for l.stalled && ctx.Err() == nil {
			select {
			case <-f.closed:
				l.stalled = false
			default:
				l.cond.Wait()
			}
		}
		close(done)
		atomic.AddInt64(&l.nStalled, -1)
		atomic.AddInt64(&f.held, -1)
		if ctx.Err() != nil {
			l.mu.Unlock()
			atomic.AddInt64(&f.inflight, -1)
			return ctx.Err()
		}
	}
	se, mitm := l.SendErr, l.Mitm
	l.mu.Unlock()
	if se != nil {
		if err := se(attempt, m); err != nil {
			f.Log.Add("send-fail", n.Name, "to=%s attempt=%d err=%v", f.NameOf(to), attempt, err)
			atomic.AddInt64(&f.inflight, -1)
			return err
		}
	}
	msgs := []gsmsg.GraphSyncMessage{m}
	if mitm != nil {
		msgs = mitm(m)
	}
	for _, mm := range msgs {
		var buf bytes.Buffer
		if err := f.mh.ToNet(to, mm, &buf); err != nil {
			f.Log.Add("encode-error", n.Name, "%v", err)
			atomic.AddInt64(&f.inflight, -1)
			return err
		}
		w := &WireMsg{From: n.ID, To: to, Bytes: buf.Len(), Msg: mm}
		w.Requests, w.Responses, w.Blocks = Summarize(mm)
		w.Seq = f.Log.Add("send", n.Name, "to=%s %s", f.NameOf(to), Brief(w))
		f.mu.Lock()
		f.wire = append(f.wire, w)
		f.mu.Unlock()
		atomic.AddInt64(&f.inflight, 1)
		l.mu.Lock()
		l.queue = append(l.queue, &queued{w, buf.Bytes()})
		l.recountHeld()
		l.cond.Broadcast()
		l.mu.Unlock()
	}
	atomic.AddInt64(&f.inflight, -1)
	return nil
}

// Brief renders a one-line summary of a wire message.
func Brief(w *WireMsg) string {
	s := ""
	for _, r := range w.Requests {
		s += fmt.Sprintf("req[%s %s] ", short(r.ID), r.Type)
	}
	for _, r := range w.Responses {
		s += fmt.Sprintf("rsp[%s %s meta=%d] ", short(r.ID), r.Status, len(r.Meta))
	}
	return s + fmt.Sprintf("blocks=%d bytes=%d", len(w.Blocks), w.Bytes)
}

func short(id graphsync.RequestID) string {
	s := id.String()
	if len(s) > 8 {
		return s[:8]
	}
	return s
}

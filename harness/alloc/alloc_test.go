package alloc

import (
	"fmt"
	"math/rand"
	"sync"
	"sync/atomic"
	"testing"
	"time"

	"github.com/anishathalye/porcupine"
	"github.com/libp2p/go-libp2p/core/peer"

	"github.com/ipfs/go-graphsync/allocator"

	"verif/harness/rt"
)

const (
	opAlloc = iota
	opRelease
	opReleasePeer
)

// Op is one allocator operation of a script.
type Op struct {
	Kind int    `json:"k"`
	Peer int    `json:"p"`
	Amt  uint64 `json:"a,omitempty"`
}

func (o Op) String() string {
	switch o.Kind {
	case opAlloc:
		return fmt.Sprintf("alloc(p%d,%d)", o.Peer, o.Amt)
	case opRelease:
		return fmt.Sprintf("release(p%d,%d)", o.Peer, o.Amt)
	default:
		return fmt.Sprintf("releasePeer(p%d)", o.Peer)
	}
}

var peerIDs = func() []peer.ID {
	out := make([]peer.ID, 16)
	for i := range out {
		out[i] = peer.ID(fmt.Sprintf("verif-peer-%02d", i))
	}
	return out
}()

type ticket struct {
	ch    <-chan error
	state TicketState
	peer  int
}

// observe does a non-blocking read of the ticket's result channel.
func (t *ticket) observe() TicketState {
	if t.state != Waiting {
		return t.state
	}
	select {
	case err := <-t.ch:
		if err == nil {
			t.state = Granted
		} else {
			t.state = Failed
		}
	default:
	}
	return t.state
}

type failure struct{ sig, what string }

// runSeq executes one script on a fresh real allocator and returns the first
// disagreement (nil if none). which selects the monitor:
//
//	"C13": limits + exact accounting. The ledger is built from the grants the
//	       real allocator was *observed* to make (ticket channels), so it does
//	       not depend on the order in which waiting requests are served.
//	"C14": every ticket's state after every operation equals the reference
//	       model's (immediate grant rule, per-peer FIFO, promptness, failure on
//	       peer release).
func runSeq(which string, maxTotal, maxPeer uint64, npeers int, ops []Op, drain bool) (*failure, int) {
	a := allocator.NewAllocator(maxTotal, maxPeer)
	m := NewModel(maxTotal, maxPeer)
	type tk struct {
		*ticket
		amt     uint64
		counted bool
	}
	var tickets []*tk
	held := make([]uint64, npeers) // C13 ledger: granted minus released, per peer
	check := func(step int) *failure {
		for i, t := range tickets {
			got := t.observe()
			if which == "C14" && got != m.Tickets[i] {
				return &failure{"C14/ticket-state", fmt.Sprintf("after step %d: ticket %d (peer p%d) is %s, model says %s", step, i, t.peer, got, m.Tickets[i])}
			}
			if got == Granted && !t.counted {
				t.counted = true
				held[t.peer] += t.amt
			}
		}
		if which != "C13" {
			return nil
		}
		st := a.Stats()
		if st.TotalAllocatedAllPeers > maxTotal {
			return &failure{"C13/total-limit-exceeded", fmt.Sprintf("after step %d: total %d > limit %d", step, st.TotalAllocatedAllPeers, maxTotal)}
		}
		var sum, ledger uint64
		for p := 0; p < npeers; p++ {
			got := a.AllocatedForPeer(peerIDs[p])
			sum += got
			ledger += held[p]
			if got > maxPeer {
				return &failure{"C13/peer-limit-exceeded", fmt.Sprintf("after step %d: peer p%d %d > limit %d", step, p, got, maxPeer)}
			}
			if got != held[p] {
				return &failure{"C13/accounting-peer", fmt.Sprintf("after step %d: peer p%d reported %d, granted-minus-released %d", step, p, got, held[p])}
			}
		}
		if st.TotalAllocatedAllPeers != ledger || sum != ledger {
			return &failure{"C13/accounting-total", fmt.Sprintf("after step %d: reported total %d, sum of peers %d, granted-minus-released %d", step, st.TotalAllocatedAllPeers, sum, ledger)}
		}
		var pt, pn uint64
		pp := make([]uint64, npeers)
		for _, t := range tickets {
			if t.state == Waiting {
				pp[t.peer] += t.amt
			}
		}
		for _, v := range pp {
			if v > 0 {
				pn++
				pt += v
			}
		}
		if st.TotalPendingAllocations != pt || st.NumPeersWithPendingAllocations != pn {
			return &failure{"C13/accounting-pending", fmt.Sprintf("after step %d: pending reported (%d bytes,%d peers), waiting tickets amount to (%d,%d)", step, st.TotalPendingAllocations, st.NumPeersWithPendingAllocations, pt, pn)}
		}
		return nil
	}
	apply := func(o Op) {
		switch o.Kind {
		case opAlloc:
			ch := a.AllocateBlockMemory(peerIDs[o.Peer], o.Amt)
			tickets = append(tickets, &tk{ticket: &ticket{ch: ch, peer: o.Peer}, amt: o.Amt})
			m.Alloc(len(tickets)-1, o.Peer, o.Amt)
		case opRelease:
			_ = a.ReleaseBlockMemory(peerIDs[o.Peer], o.Amt)
			m.Release(o.Peer, o.Amt)
			if o.Amt > held[o.Peer] {
				held[o.Peer] = 0
			} else {
				held[o.Peer] -= o.Amt
			}
		case opReleasePeer:
			_ = a.ReleasePeerMemory(peerIDs[o.Peer])
			m.ReleasePeer(o.Peer)
			held[o.Peer] = 0
		}
	}
	steps := 0
	for i, o := range ops {
		apply(o)
		steps++
		if f := check(i); f != nil {
			return f, steps
		}
	}
	if drain {
		// release everything: afterwards nothing may be allocated, pending or waiting
		for p := 0; p < npeers; p++ {
			apply(Op{Kind: opReleasePeer, Peer: p})
			steps++
			if f := check(len(ops) + p); f != nil {
				return f, steps
			}
		}
		st := a.Stats()
		if which == "C13" && (st.TotalAllocatedAllPeers != 0 || st.TotalPendingAllocations != 0 || st.NumPeersWithPendingAllocations != 0) {
			return &failure{"C13/final-nonzero", fmt.Sprintf("after releasing every peer: %+v", st)}, steps
		}
		if which == "C14" {
			for i, t := range tickets {
				if t.observe() == Waiting {
					return &failure{"C14/left-waiting", fmt.Sprintf("ticket %d still waiting after every peer was released", i)}, steps
				}
			}
		}
	}
	return nil, steps
}

type config struct{ total, peer uint64 }

var smallConfigs = []config{{3, 2}, {3, 3}, {4, 2}, {4, 3}, {5, 2}, {5, 3}, {2, 3}}

func opAlphabet(npeers int) []Op {
	var out []Op
	for p := 0; p < npeers; p++ {
		for a := uint64(1); a <= 3; a++ {
			out = append(out, Op{opAlloc, p, a})
		}
		for a := uint64(1); a <= 3; a++ {
			out = append(out, Op{opRelease, p, a})
		}
		out = append(out, Op{opReleasePeer, p, 0})
	}
	return out
}

// TestExhaustive enumerates every script of the small scope. A "case" is
// (config, first op, second op); the child enumerates every suffix.
// VERIF_SUB = "exh<P>x<L>" (P peers, scripts of length L).
func TestExhaustive(t *testing.T) {
	p := rt.Load()
	rep := rt.NewReporter(p)
	defer rep.Flush(false)
	var np, L int
	if _, err := fmt.Sscanf(p.Sub, "exh%dx%d", &np, &L); err != nil {
		t.Fatalf("bad sub %q", p.Sub)
	}
	alpha := opAlphabet(np)
	n := len(alpha)
	ops := make([]Op, L)
	var seqs, steps int64
	for _, c := range p.Cases() {
		cfg := smallConfigs[c/(n*n)%len(smallConfigs)]
		ops[0] = alpha[(c/n)%n]
		ops[1] = alpha[c%n]
		rep.Journal("case %d cfg=%+v prefix=%v,%v", c, cfg, ops[0], ops[1])
		idx := make([]int, L-2)
		for {
			for i, v := range idx {
				ops[2+i] = alpha[v]
			}
			f, st := runSeq(p.Prop, cfg.total, cfg.peer, np, ops, true)
			seqs++
			steps += int64(st)
			if f != nil {
				rep.Violation(c, f.sig, f.what, map[string]any{"max_total": cfg.total, "max_per_peer": cfg.peer, "peers": np, "ops": fmtOps(ops)})
				if rep.NumViolations() > 20 {
					rep.Flush(true)
					return
				}
			}
			// next suffix
			k := len(idx) - 1
			for k >= 0 {
				idx[k]++
				if idx[k] < n {
					break
				}
				idx[k] = 0
				k--
			}
			if k < 0 {
				break
			}
		}
		rep.Eval()
		rep.Nontrivial(rt.Key(p.Sub, c))
		if c%397 == 0 {
			rep.Sample(map[string]any{"kind": "exhaustive-prefix", "max_total": cfg.total, "max_per_peer": cfg.peer, "peers": np, "length": L, "prefix": fmtOps(ops[:2]), "suffixes_enumerated": pow(n, L-2)})
		}
	}
	rep.Count("scripts_executed", seqs)
	rep.Count("operations_checked", steps)
	rep.SetExhaustive(true)
	rep.Flush(true)
}

func pow(a, b int) int {
	r := 1
	for i := 0; i < b; i++ {
		r *= a
	}
	return r
}

func fmtOps(ops []Op) []string {
	out := make([]string, len(ops))
	for i, o := range ops {
		out[i] = o.String()
	}
	return out
}

func randomOps(r *rand.Rand, npeers, n int, maxAmt uint64) []Op {
	ops := make([]Op, n)
	for i := range ops {
		pe := r.Intn(npeers)
		switch x := r.Intn(10); {
		case x < 5:
			ops[i] = Op{opAlloc, pe, 1 + uint64(r.Int63n(int64(maxAmt)))}
		case x < 9:
			ops[i] = Op{opRelease, pe, 1 + uint64(r.Int63n(int64(maxAmt)))}
		default:
			ops[i] = Op{opReleasePeer, pe, 0}
		}
	}
	return ops
}

// TestRandom runs long random scripts (6 peers, large amounts) in lock-step.
func TestRandom(t *testing.T) {
	p := rt.Load()
	rep := rt.NewReporter(p)
	defer rep.Flush(false)
	var steps int64
	for _, c := range p.Cases() {
		r := p.RNG("random", c)
		np := 2 + r.Intn(5)
		maxPeer := uint64(1 + r.Intn(2000))
		maxTotal := maxPeer + uint64(r.Intn(4000))
		if r.Intn(5) == 0 {
			maxTotal = uint64(1 + r.Intn(int(maxPeer)))
		}
		maxAmt := uint64(1 + r.Intn(int(maxPeer)+200))
		ops := randomOps(r, np, 200, maxAmt)
		rep.Journal("case %d total=%d peer=%d np=%d", c, maxTotal, maxPeer, np)
		f, st := runSeq(p.Prop, maxTotal, maxPeer, np, ops, true)
		steps += int64(st)
		rep.Eval()
		rep.Nontrivial(rt.Key("random", fmt.Sprint(ops), maxTotal, maxPeer))
		if f != nil {
			rep.Violation(c, f.sig, f.what, map[string]any{"max_total": maxTotal, "max_per_peer": maxPeer, "peers": np, "ops": fmtOps(ops)})
		}
		if c%500 == 0 {
			rep.Sample(map[string]any{"kind": "random-script", "max_total": maxTotal, "max_per_peer": maxPeer, "peers": np, "first_ops": fmtOps(ops[:12]), "length": len(ops)})
		}
	}
	rep.Count("operations_checked", steps)
	rep.Flush(true)
}

// ---- concurrent histories, checked with porcupine against the model ----

type cIn struct {
	Kind   string // alloc release releasePeer stats peerAlloc observe
	Peer   int
	Amt    uint64
	Ticket int
}
type cOut struct {
	Total, PendBytes, PendPeers uint64
	PeerAlloc                   uint64
	TState                      TicketState
}

func concModel(which string, maxTotal, maxPeer uint64) porcupine.Model {
	if which == "C13" {
		return concModelC13(maxTotal, maxPeer)
	}
	return porcupine.Model{
		Init: func() any { return NewModel(maxTotal, maxPeer) },
		Step: func(state, input, output any) (bool, any) {
			m := state.(*Model)
			in := input.(cIn)
			out := output.(cOut)
			switch in.Kind {
			case "alloc":
				n := m.Clone()
				n.Alloc(in.Ticket, in.Peer, in.Amt)
				return true, n
			case "release":
				n := m.Clone()
				n.Release(in.Peer, in.Amt)
				return true, n
			case "releasePeer":
				n := m.Clone()
				n.ReleasePeer(in.Peer)
				return true, n
			case "stats":
				pt, pn := m.PendingStats()
				return out.Total == m.Total && out.PendBytes == pt && out.PendPeers == pn && m.Total <= maxTotal, m
			case "peerAlloc":
				return out.PeerAlloc == m.Peer[in.Peer] && m.Peer[in.Peer] <= maxPeer, m
			case "observe":
				return out.TState == m.Tickets[in.Ticket], m
			}
			return false, m
		},
		Equal: func(a, b any) bool { return a.(*Model).Canon() == b.(*Model).Canon() },
		DescribeOperation: func(input, output any) string {
			return fmt.Sprintf("%+v -> %+v", input, output)
		},
	}
}

// TestConcurrent records concurrent histories at the allocator's public
// boundary and checks them for linearizability w.r.t. the model.
func TestConcurrent(t *testing.T) {
	p := rt.Load()
	rep := rt.NewReporter(p)
	defer rep.Flush(false)
	var clock int64
	now := func() int64 { return atomic.AddInt64(&clock, 1) }
	for _, c := range p.Cases() {
		r := p.RNG("conc", c)
		nthreads := 3 + r.Intn(2)
		np := 2 + r.Intn(2)
		maxPeer := uint64(2 + r.Intn(4))
		maxTotal := maxPeer + uint64(r.Intn(4))
		opsPer := 4 + r.Intn(3)
		a := allocator.NewAllocator(maxTotal, maxPeer)
		var mu sync.Mutex
		var hist []porcupine.Operation
		var ticketCtr int64
		var wg sync.WaitGroup
		seeds := make([]int64, nthreads)
		for i := range seeds {
			seeds[i] = r.Int63()
		}
		rep.Journal("case %d threads=%d peers=%d total=%d peer=%d", c, nthreads, np, maxTotal, maxPeer)
		for th := 0; th < nthreads; th++ {
			wg.Add(1)
			go func(th int) {
				defer wg.Done()
				lr := rand.New(rand.NewSource(seeds[th]))
				type own struct {
					id int
					t  *ticket
				}
				var mine []own
				for i := 0; i < opsPer; i++ {
					var in cIn
					var out cOut
					pe := lr.Intn(np)
					x := lr.Intn(12)
					if lr.Intn(3) == 0 {
						time.Sleep(time.Duration(lr.Intn(50)) * time.Microsecond)
					}
					switch {
					case x < 4:
						in = cIn{Kind: "alloc", Peer: pe, Amt: 1 + uint64(lr.Intn(3)), Ticket: int(atomic.AddInt64(&ticketCtr, 1))}
						call := now()
						ch := a.AllocateBlockMemory(peerIDs[pe], in.Amt)
						ret := now()
						mine = append(mine, own{in.Ticket, &ticket{ch: ch, peer: pe}})
						mu.Lock()
						hist = append(hist, porcupine.Operation{ClientId: th, Input: in, Call: call, Output: out, Return: ret})
						mu.Unlock()
						continue
					case x < 7:
						in = cIn{Kind: "release", Peer: pe, Amt: 1 + uint64(lr.Intn(3))}
						call := now()
						_ = a.ReleaseBlockMemory(peerIDs[pe], in.Amt)
						ret := now()
						mu.Lock()
						hist = append(hist, porcupine.Operation{ClientId: th, Input: in, Call: call, Output: out, Return: ret})
						mu.Unlock()
					case x < 8:
						in = cIn{Kind: "releasePeer", Peer: pe}
						call := now()
						_ = a.ReleasePeerMemory(peerIDs[pe])
						ret := now()
						mu.Lock()
						hist = append(hist, porcupine.Operation{ClientId: th, Input: in, Call: call, Output: out, Return: ret})
						mu.Unlock()
					case x < 9:
						in = cIn{Kind: "stats"}
						call := now()
						st := a.Stats()
						ret := now()
						out = cOut{Total: st.TotalAllocatedAllPeers, PendBytes: st.TotalPendingAllocations, PendPeers: st.NumPeersWithPendingAllocations}
						mu.Lock()
						hist = append(hist, porcupine.Operation{ClientId: th, Input: in, Call: call, Output: out, Return: ret})
						mu.Unlock()
					case x < 10:
						in = cIn{Kind: "peerAlloc", Peer: pe}
						call := now()
						v := a.AllocatedForPeer(peerIDs[pe])
						ret := now()
						out = cOut{PeerAlloc: v}
						mu.Lock()
						hist = append(hist, porcupine.Operation{ClientId: th, Input: in, Call: call, Output: out, Return: ret})
						mu.Unlock()
					default:
						if len(mine) == 0 {
							continue
						}
						o := mine[lr.Intn(len(mine))]
						in = cIn{Kind: "observe", Ticket: o.id}
						call := now()
						s := o.t.observe()
						ret := now()
						out = cOut{TState: s}
						mu.Lock()
						hist = append(hist, porcupine.Operation{ClientId: th, Input: in, Call: call, Output: out, Return: ret})
						mu.Unlock()
					}
				}
			}(th)
		}
		wg.Wait()
		rep.Eval()
		// quiescent end of the history: conservation between the two public views,
		// then release everything and require zeros
		{
			st := a.Stats()
			var sum uint64
			for q := 0; q < np; q++ {
				sum += a.AllocatedForPeer(peerIDs[q])
			}
			if p.Prop == "C13" && (sum != st.TotalAllocatedAllPeers || st.TotalAllocatedAllPeers > maxTotal) {
				rep.Violation(c, "C13/conc-accounting", fmt.Sprintf("after concurrent history: sum of peers %d, reported total %d, limit %d", sum, st.TotalAllocatedAllPeers, maxTotal), nil)
			}
			for q := 0; q < np; q++ {
				_ = a.ReleasePeerMemory(peerIDs[q])
			}
			st = a.Stats()
			if p.Prop == "C13" && (st.TotalAllocatedAllPeers != 0 || st.TotalPendingAllocations != 0) {
				rep.Violation(c, "C13/conc-final-nonzero", fmt.Sprintf("after releasing every peer: %+v", st), nil)
			}
		}
		res, _ := porcupine.CheckOperationsVerbose(concModel(p.Prop, maxTotal, maxPeer), hist, 30*time.Second)
		rep.Count("history_operations", int64(len(hist)))
		rep.Max("max_threads", int64(nthreads))
		switch res {
		case porcupine.Ok:
			rep.Nontrivial(rt.Key("conc", c, len(hist)))
		case porcupine.Illegal:
			var h []string
			for _, o := range hist {
				h = append(h, fmt.Sprintf("client%d [%d,%d] %+v -> %+v", o.ClientId, o.Call, o.Return, o.Input, o.Output))
			}
			rep.Violation(c, p.Prop+"/history-not-linearizable", "concurrent history is not linearizable w.r.t. the sequential allocator model", map[string]any{"max_total": maxTotal, "max_per_peer": maxPeer, "history": h})
		default:
			rep.Inconclusive("case %d: porcupine timed out on %d operations", c, len(hist))
		}
		if c%200 == 0 {
			var h []string
			for i, o := range hist {
				if i >= 10 {
					break
				}
				h = append(h, fmt.Sprintf("client%d [%d,%d] %+v -> %+v", o.ClientId, o.Call, o.Return, o.Input, o.Output))
			}
			rep.Sample(map[string]any{"kind": "concurrent-history", "threads": nthreads, "ops": len(hist), "first_ops": h})
		}
	}
	rep.Flush(true)
}

// concModelC13 is the order-independent accounting model used for C13's
// concurrent histories: which waiting request is granted when is taken from
// what the ticket owner later observes (Observe outputs are not constrained);
// only limits and conservation are decided: every Stats/AllocatedForPeer
// result must be within limits and must be explainable as "sum of some grants
// minus releases". Because grant timing is not determined by this model, the
// check is restricted to what is independent of it: limits, and sum(peers)
// consistency is checked at the quiescent end of the history by the caller.
func concModelC13(maxTotal, maxPeer uint64) porcupine.Model {
	return porcupine.Model{
		Init: func() any { return 0 },
		Step: func(state, input, output any) (bool, any) {
			in := input.(cIn)
			out := output.(cOut)
			switch in.Kind {
			case "stats":
				return out.Total <= maxTotal, state
			case "peerAlloc":
				return out.PeerAlloc <= maxPeer, state
			}
			return true, state
		},
		DescribeOperation: func(input, output any) string { return fmt.Sprintf("%+v -> %+v", input, output) },
	}
}

// Package alloc drives the real allocator against a reference model written
// from the statements of C13 and C14 (not from the implementation).
package alloc

import (
	"fmt"
	"sort"
	"strings"
)

// TicketState is the observable state of one allocation request.
type TicketState int

const (
	Waiting TicketState = iota
	Granted
	Failed
)

func (t TicketState) String() string { return [...]string{"waiting", "granted", "failed"}[t] }

type pend struct {
	Ticket int
	Amount uint64
	Index  uint64 // global request order
}

// Model is the sequential reference allocator.
type Model struct {
	MaxTotal, MaxPeer uint64
	Total             uint64
	Peer              map[int]uint64
	Pending           map[int][]pend
	Tickets           map[int]TicketState
	next              uint64
}

// NewModel returns an empty model.
func NewModel(maxTotal, maxPeer uint64) *Model {
	return &Model{MaxTotal: maxTotal, MaxPeer: maxPeer, Peer: map[int]uint64{}, Pending: map[int][]pend{}, Tickets: map[int]TicketState{}}
}

// Clone deep-copies the model.
func (m *Model) Clone() *Model {
	c := NewModel(m.MaxTotal, m.MaxPeer)
	c.Total = m.Total
	c.next = m.next
	for k, v := range m.Peer {
		c.Peer[k] = v
	}
	for k, v := range m.Pending {
		c.Pending[k] = append([]pend(nil), v...)
	}
	for k, v := range m.Tickets {
		c.Tickets[k] = v
	}
	return c
}

// Alloc requests memory; the ticket becomes Granted at once iff the peer has
// nothing waiting and the amount fits both limits, otherwise it waits.
func (m *Model) Alloc(ticket, p int, amt uint64) {
	m.next++
	if len(m.Pending[p]) == 0 && m.Total+amt <= m.MaxTotal && m.Peer[p]+amt <= m.MaxPeer {
		m.Total += amt
		m.Peer[p] += amt
		m.Tickets[ticket] = Granted
		return
	}
	m.Pending[p] = append(m.Pending[p], pend{ticket, amt, m.next})
	m.Tickets[ticket] = Waiting
}

// Release returns memory; a release never takes a peer below zero.
func (m *Model) Release(p int, amt uint64) {
	if amt > m.Peer[p] {
		amt = m.Peer[p]
	}
	m.Peer[p] -= amt
	m.Total -= amt
	m.wake()
}

// ReleasePeer returns all memory of a peer and fails all its waiting requests.
func (m *Model) ReleasePeer(p int) {
	for _, pd := range m.Pending[p] {
		m.Tickets[pd.Ticket] = Failed
	}
	delete(m.Pending, p)
	m.Total -= m.Peer[p]
	delete(m.Peer, p)
	m.wake()
}

// wake grants waiting requests: repeatedly, among the heads of the per-peer
// queues that fit their own peer's limit, take the earliest requested; grant
// it if it fits the total, else stop.
func (m *Model) wake() {
	for {
		best := -1
		var bestIdx uint64
		for p, q := range m.Pending {
			if len(q) == 0 {
				continue
			}
			if m.Peer[p]+q[0].Amount > m.MaxPeer {
				continue
			}
			if best == -1 || q[0].Index < bestIdx {
				best, bestIdx = p, q[0].Index
			}
		}
		if best == -1 {
			return
		}
		h := m.Pending[best][0]
		if m.Total+h.Amount > m.MaxTotal {
			return
		}
		m.Total += h.Amount
		m.Peer[best] += h.Amount
		m.Tickets[h.Ticket] = Granted
		m.Pending[best] = m.Pending[best][1:]
		if len(m.Pending[best]) == 0 {
			delete(m.Pending, best)
		}
	}
}

// PendingStats returns total pending bytes and number of peers with pending bytes.
func (m *Model) PendingStats() (uint64, uint64) {
	var tot, n uint64
	for _, q := range m.Pending {
		var s uint64
		for _, pd := range q {
			s += pd.Amount
		}
		if s > 0 {
			n++
			tot += s
		}
	}
	return tot, n
}

// Canon is a canonical encoding of the state (for porcupine state equality).
func (m *Model) Canon() string {
	var sb strings.Builder
	fmt.Fprintf(&sb, "T%d;", m.Total)
	ps := make([]int, 0, len(m.Peer))
	for p := range m.Peer {
		ps = append(ps, p)
	}
	sort.Ints(ps)
	for _, p := range ps {
		if m.Peer[p] != 0 {
			fmt.Fprintf(&sb, "p%d=%d;", p, m.Peer[p])
		}
	}
	// waiting requests: only their relative request order matters
	type we struct {
		p  int
		pd pend
	}
	var ws []we
	for p, q := range m.Pending {
		for _, pd := range q {
			ws = append(ws, we{p, pd})
		}
	}
	sort.Slice(ws, func(i, j int) bool { return ws[i].pd.Index < ws[j].pd.Index })
	for _, w := range ws {
		fmt.Fprintf(&sb, "w%d:%d:%d;", w.p, w.pd.Ticket, w.pd.Amount)
	}
	ts := make([]int, 0, len(m.Tickets))
	for t := range m.Tickets {
		ts = append(ts, t)
	}
	sort.Ints(ts)
	for _, t := range ts {
		fmt.Fprintf(&sb, "t%d=%d;", t, m.Tickets[t])
	}
	return sb.String()
}

module verif/harness

go 1.25.7

require (
	github.com/anishathalye/porcupine v1.3.0
	github.com/ipfs/go-block-format v0.2.4
	github.com/ipfs/go-cid v0.6.2
	github.com/ipfs/go-graphsync v0.0.0
	github.com/ipfs/go-peertaskqueue v0.8.3
	github.com/ipld/go-codec-dagpb v1.7.0
	github.com/ipld/go-ipld-prime v0.24.0
	github.com/libp2p/go-libp2p v0.48.0
	github.com/libp2p/go-msgio v0.3.0
	github.com/multiformats/go-multihash v0.2.3
)

require (
	github.com/benbjohnson/clock v1.3.5 // indirect
	github.com/beorn7/perks v1.0.1 // indirect
	github.com/cespare/xxhash/v2 v2.3.0 // indirect
	github.com/decred/dcrd/dcrec/secp256k1/v4 v4.4.1 // indirect
	github.com/go-logr/logr v1.4.3 // indirect
	github.com/go-logr/stdr v1.2.2 // indirect
	github.com/google/uuid v1.6.0 // indirect
	github.com/hannahhoward/go-pubsub v0.0.0-20200423002714-8d62886cc36e // indirect
	github.com/huin/goupnp v1.3.0 // indirect
	github.com/ipfs/boxo v0.41.0 // indirect
	github.com/ipfs/go-ipfs-pq v0.0.4 // indirect
	github.com/ipfs/go-log/v2 v2.9.2 // indirect
	github.com/jackpal/go-nat-pmp v1.0.2 // indirect
	github.com/klauspost/cpuid/v2 v2.3.0 // indirect
	github.com/koron/go-ssdp v0.0.6 // indirect
	github.com/libp2p/go-buffer-pool v0.1.0 // indirect
	github.com/libp2p/go-libp2p-asn-util v0.4.1 // indirect
	github.com/libp2p/go-netroute v0.4.0 // indirect
	github.com/mattn/go-isatty v0.0.22 // indirect
	github.com/mr-tron/base58 v1.3.0 // indirect
	github.com/multiformats/go-base32 v0.1.0 // indirect
	github.com/multiformats/go-base36 v0.2.0 // indirect
	github.com/multiformats/go-multiaddr v0.16.1 // indirect
	github.com/multiformats/go-multiaddr-fmt v0.1.0 // indirect
	github.com/multiformats/go-multibase v0.3.0 // indirect
	github.com/multiformats/go-multicodec v0.10.0 // indirect
	github.com/multiformats/go-multistream v0.6.1 // indirect
	github.com/multiformats/go-varint v0.1.0 // indirect
	github.com/munnerz/goautoneg v0.0.0-20191010083416-a7dc8b61c822 // indirect
	github.com/polydawn/refmt v0.90.0 // indirect
	github.com/prometheus/client_golang v1.23.2 // indirect
	github.com/prometheus/client_model v0.6.2 // indirect
	github.com/prometheus/common v0.67.5 // indirect
	github.com/prometheus/procfs v0.20.1 // indirect
	github.com/spaolacci/murmur3 v1.1.0 // indirect
	go.opentelemetry.io/auto/sdk v1.2.1 // indirect
	go.opentelemetry.io/otel v1.44.0 // indirect
	go.opentelemetry.io/otel/metric v1.44.0 // indirect
	go.opentelemetry.io/otel/trace v1.44.0 // indirect
	go.uber.org/multierr v1.11.0 // indirect
	go.uber.org/zap v1.28.0 // indirect
	go.yaml.in/yaml/v2 v2.4.4 // indirect
	golang.org/x/crypto v0.53.0 // indirect
	golang.org/x/exp v0.0.0-20260603202125-055de637280b // indirect
	golang.org/x/net v0.55.0 // indirect
	golang.org/x/sync v0.22.0 // indirect
	golang.org/x/sys v0.46.0 // indirect
	golang.org/x/time v0.12.0 // indirect
	google.golang.org/protobuf v1.36.11 // indirect
	lukechampine.com/blake3 v1.4.1 // indirect
)

replace github.com/ipfs/go-graphsync => /repo

// Package rt is the shared runtime of the verification harness: it reads the
// run parameters handed down by ./check, provides seed-determined PRNGs,
// a crash journal, and the result file a child process leaves for the driver.
package rt

import (
	"crypto/sha256"
	"encoding/binary"
	"encoding/hex"
	"encoding/json"
	"fmt"
	"math/rand"
	"os"
	"path/filepath"
	"sort"
	"strconv"
	"sync"
	"time"
)

// Params are the parameters of one child process.
type Params struct {
	Prop     string // property id, e.g. C13
	Tier     string // quick | thorough
	Seed     int64  // VERIF_SEED
	From, To int    // case index range [From,To)
	Only     int    // >=0: run only this case (replay)
	Repeat   int    // replay repetitions
	OutDir   string // directory for result/journal/replay files
	Child    int    // child number
	Sub      string // optional sub-workload name
}

func envInt(name string, def int) int {
	v := os.Getenv(name)
	if v == "" {
		return def
	}
	n, err := strconv.Atoi(v)
	if err != nil {
		return def
	}
	return n
}

// Load reads the parameters from the environment.
func Load() Params {
	p := Params{
		Prop:   os.Getenv("VERIF_PROP"),
		Tier:   os.Getenv("VERIF_TIER"),
		Seed:   int64(envInt("VERIF_SEED", 1)),
		From:   envInt("VERIF_CASE_FROM", 0),
		To:     envInt("VERIF_CASE_TO", 0),
		Only:   envInt("VERIF_ONLY_CASE", -1),
		Repeat: envInt("VERIF_REPEAT", 1),
		OutDir: os.Getenv("VERIF_OUT"),
		Child:  envInt("VERIF_CHILD", 0),
		Sub:    os.Getenv("VERIF_SUB"),
	}
	if p.Tier == "" {
		p.Tier = "quick"
	}
	if p.OutDir == "" {
		p.OutDir = os.TempDir()
	}
	return p
}

// Thorough reports whether the thorough tier was requested.
func (p Params) Thorough() bool { return p.Tier == "thorough" }

// Pick returns q for the quick tier and t for the thorough tier.
func (p Params) Pick(q, t int) int {
	if p.Thorough() {
		return t
	}
	return q
}

// RNG returns the PRNG for a case: determined by (seed, property, stream, index).
func (p Params) RNG(stream string, idx int) *rand.Rand {
	h := sha256.New()
	var b [8]byte
	binary.LittleEndian.PutUint64(b[:], uint64(p.Seed))
	h.Write(b[:])
	h.Write([]byte(p.Prop))
	h.Write([]byte{0})
	h.Write([]byte(stream))
	h.Write([]byte{0})
	binary.LittleEndian.PutUint64(b[:], uint64(idx))
	h.Write(b[:])
	s := h.Sum(nil)
	return rand.New(rand.NewSource(int64(binary.LittleEndian.Uint64(s[:8]))))
}

// Violation is one observed refutation of the property.
type Violation struct {
	Sig    string `json:"sig"`    // signature computed from the case and the reference model
	What   string `json:"what"`   // human readable description
	Replay string `json:"replay"` // path of the replay file
	Case   int    `json:"case"`
}

// Result is what a child leaves behind for the driver.
type Result struct {
	Prop         string              `json:"property"`
	Sub          string              `json:"sub,omitempty"`
	Child        int                 `json:"child"`
	Evaluations  int                 `json:"evaluations"`
	Nontrivial   []string            `json:"nontrivial"` // distinct keys of non-trivial cases
	Violations   []Violation         `json:"violations"`
	Inconclusive []string            `json:"inconclusive"`
	Samples      []any               `json:"samples"`
	Counters     map[string]int64    `json:"counters"`
	Sets         map[string][]string `json:"sets"`
	Exhaustive   bool                `json:"exhaustive,omitempty"`
	Done         bool                `json:"done"`
	WallS        float64             `json:"wall_s"`
}

// Reporter accumulates the result of a child process.
type Reporter struct {
	P       Params
	mu      sync.Mutex
	res     Result
	nontriv map[string]struct{}
	sets    map[string]map[string]struct{}
	journal *os.File
	start   time.Time
	maxSamp int
}

// NewReporter creates the reporter and opens the journal.
func NewReporter(p Params) *Reporter {
	_ = os.MkdirAll(p.OutDir, 0o755)
	r := &Reporter{P: p, nontriv: map[string]struct{}{}, sets: map[string]map[string]struct{}{}, start: time.Now(), maxSamp: 4}
	r.res.Prop = p.Prop
	r.res.Sub = p.Sub
	r.res.Child = p.Child
	r.res.Counters = map[string]int64{}
	r.res.Violations = []Violation{}
	r.res.Inconclusive = []string{}
	r.res.Samples = []any{}
	f, err := os.OpenFile(filepath.Join(p.OutDir, fmt.Sprintf("journal.%s.%d.log", tag(p), p.Child)), os.O_CREATE|os.O_WRONLY|os.O_APPEND, 0o644)
	if err == nil {
		r.journal = f
	}
	return r
}

func tag(p Params) string {
	if p.Sub != "" {
		return p.Prop + "." + p.Sub
	}
	return p.Prop
}

// Journal records the descriptor of the case about to be executed, so that a
// child that dies identifies its killer.
func (r *Reporter) Journal(format string, a ...any) {
	if r.journal == nil {
		return
	}
	fmt.Fprintf(r.journal, format+"\n", a...)
}

// Eval counts one execution.
func (r *Reporter) Eval() {
	r.mu.Lock()
	r.res.Evaluations++
	r.mu.Unlock()
}

// Nontrivial records the key of a case that reached the monitored behaviour.
func (r *Reporter) Nontrivial(key string) {
	r.mu.Lock()
	r.nontriv[key] = struct{}{}
	r.mu.Unlock()
}

// Key hashes arbitrary parts into a short distinctness key.
func Key(parts ...any) string {
	h := sha256.New()
	for _, p := range parts {
		fmt.Fprintf(h, "%v\x00", p)
	}
	return hex.EncodeToString(h.Sum(nil)[:10])
}

// Count adds to a named counter.
func (r *Reporter) Count(name string, n int64) {
	r.mu.Lock()
	r.res.Counters[name] += n
	r.mu.Unlock()
}

// Max keeps the maximum of a named counter.
func (r *Reporter) Max(name string, n int64) {
	r.mu.Lock()
	if n > r.res.Counters[name] {
		r.res.Counters[name] = n
	}
	r.mu.Unlock()
}

// SetAdd adds a member to a named set (reported as distinct counts by the driver).
func (r *Reporter) SetAdd(set, member string) {
	r.mu.Lock()
	m := r.sets[set]
	if m == nil {
		m = map[string]struct{}{}
		r.sets[set] = m
	}
	if len(m) < 20000 {
		m[member] = struct{}{}
	}
	r.mu.Unlock()
}

// Sample keeps a few written-out cases for the evidence file.
func (r *Reporter) Sample(s any) {
	r.mu.Lock()
	if len(r.res.Samples) < r.maxSamp {
		r.res.Samples = append(r.res.Samples, s)
	}
	r.mu.Unlock()
}

// Inconclusive records that a case could not be decided.
func (r *Reporter) Inconclusive(format string, a ...any) {
	r.mu.Lock()
	if len(r.res.Inconclusive) < 50 {
		r.res.Inconclusive = append(r.res.Inconclusive, fmt.Sprintf(format, a...))
	}
	r.mu.Unlock()
}

// Violation records a refutation and writes its replay file.
func (r *Reporter) Violation(caseIdx int, sig, what string, replay any) {
	r.mu.Lock()
	n := len(r.res.Violations)
	r.mu.Unlock()
	path := filepath.Join(r.P.OutDir, fmt.Sprintf("replay.%s.%d.%d.json", tag(r.P), r.P.Child, n))
	doc := map[string]any{
		"property": r.P.Prop, "sub": r.P.Sub, "tier": r.P.Tier, "seed": r.P.Seed, "case": caseIdx,
		"signature": sig, "what": what, "detail": replay,
	}
	b, err := json.MarshalIndent(doc, "", " ")
	if err != nil {
		b, _ = json.Marshal(map[string]any{"property": r.P.Prop, "seed": r.P.Seed, "case": caseIdx, "signature": sig, "what": what, "detail": fmt.Sprintf("%+v", replay)})
	}
	_ = os.WriteFile(path, b, 0o644)
	r.mu.Lock()
	if len(r.res.Violations) < 200 {
		r.res.Violations = append(r.res.Violations, Violation{Sig: sig, What: what, Replay: path, Case: caseIdx})
	}
	r.mu.Unlock()
	r.Journal("VIOLATION case=%d sig=%s %s", caseIdx, sig, what)
}

// SetExhaustive marks that the child enumerated its finite space completely.
func (r *Reporter) SetExhaustive(b bool) { r.mu.Lock(); r.res.Exhaustive = b; r.mu.Unlock() }

// NumViolations returns the number of violations so far.
func (r *Reporter) NumViolations() int {
	r.mu.Lock()
	defer r.mu.Unlock()
	return len(r.res.Violations)
}

// Flush writes the result file; Done marks normal completion.
func (r *Reporter) Flush(done bool) {
	r.mu.Lock()
	defer r.mu.Unlock()
	if r.res.Done && !done {
		return // already completed; a deferred Flush(false) must not undo it
	}
	r.res.Done = done
	r.res.WallS = time.Since(r.start).Seconds()
	r.res.Nontrivial = r.res.Nontrivial[:0]
	for k := range r.nontriv {
		r.res.Nontrivial = append(r.res.Nontrivial, k)
	}
	sort.Strings(r.res.Nontrivial)
	r.res.Sets = map[string][]string{}
	for name, m := range r.sets {
		l := make([]string, 0, len(m))
		for k := range m {
			l = append(l, k)
		}
		sort.Strings(l)
		r.res.Sets[name] = l
	}
	b, err := json.Marshal(r.res)
	if err != nil {
		b = []byte(fmt.Sprintf(`{"property":%q,"done":false,"inconclusive":["result marshal error: %v"]}`, r.P.Prop, err))
	}
	path := filepath.Join(r.P.OutDir, fmt.Sprintf("result.%s.%d.json", tag(r.P), r.P.Child))
	tmp := path + ".tmp"
	_ = os.WriteFile(tmp, b, 0o644)
	_ = os.Rename(tmp, path)
}

// Cases returns the case indices this child must run.
func (p Params) Cases() []int {
	if p.Only >= 0 {
		out := make([]int, 0, p.Repeat)
		for i := 0; i < p.Repeat; i++ {
			out = append(out, p.Only)
		}
		return out
	}
	out := make([]int, 0, p.To-p.From)
	for i := p.From; i < p.To; i++ {
		out = append(out, i)
	}
	return out
}

// Package mq drives peermanager + messagequeue + allocator (+ responseassembler), wired the way
// impl.New wires them, on a fault-injecting network, and monitors
//
//	C15  memory accounted to a peer matches its unsent response data (conservation ledger),
//	C16  every queued message is reported sent or failed exactly once to each attached party,
//	C17  one live queue per peer, none outliving the last disconnect, FIFO delivery.
package mq

import (
	"context"
	"errors"
	"fmt"
	"math/rand"
	"sort"
	"sync"
	"sync/atomic"
	"testing"
	"time"

	blocks "github.com/ipfs/go-block-format"
	"github.com/ipfs/go-cid"
	"github.com/ipld/go-ipld-prime"
	cidlink "github.com/ipld/go-ipld-prime/linking/cid"
	"github.com/ipld/go-ipld-prime/node/basicnode"
	"github.com/libp2p/go-libp2p/core/peer"
	mh "github.com/multiformats/go-multihash"

	"github.com/ipfs/go-graphsync"
	"github.com/ipfs/go-graphsync/allocator"
	gsmsg "github.com/ipfs/go-graphsync/message"
	"github.com/ipfs/go-graphsync/messagequeue"
	gsnet "github.com/ipfs/go-graphsync/network"
	"github.com/ipfs/go-graphsync/notifications"
	"github.com/ipfs/go-graphsync/peermanager"
	"github.com/ipfs/go-graphsync/responsemanager/responseassembler"
	"github.com/ipfs/go-graphsync/verifhook"

	"verif/harness/fab"
	"verif/harness/mon"
	"verif/harness/rt"
)

// ---------------------------------------------------------------- fault-injecting network

type wireRec struct {
	Seq    int64
	Peer   peer.ID
	Queue  int // sender instance id
	Builds []int64
	Reqs   []graphsync.RequestID
	Bytes  uint64
}

type net struct {
	mu         sync.Mutex
	log        *mon.Log
	wire       []wireRec
	connectErr func(p peer.ID, n int) error
	senderErr  func(p peer.ID, n int) error
	sendErr    func(p peer.ID, n int) error // n = index of the SendMsg attempt to that peer
	nConnect   map[peer.ID]int
	nSender    map[peer.ID]int
	nSend      map[peer.ID]int
	gate       map[peer.ID]chan struct{} // SendMsg to that peer blocks while the gate exists and is open-less
	blocked    int64
	senders    int
}

func newNet(log *mon.Log) *net {
	return &net{log: log, nConnect: map[peer.ID]int{}, nSender: map[peer.ID]int{}, nSend: map[peer.ID]int{}, gate: map[peer.ID]chan struct{}{}}
}

func (n *net) ConnectTo(ctx context.Context, p peer.ID) error {
	mon.Tick()
	n.mu.Lock()
	k := n.nConnect[p]
	n.nConnect[p]++
	f := n.connectErr
	n.mu.Unlock()
	if f != nil {
		return f(p, k)
	}
	return nil
}

type sender struct {
	n  *net
	p  peer.ID
	id int
}

func (n *net) NewMessageSender(ctx context.Context, p peer.ID, _ gsnet.MessageSenderOpts) (gsnet.MessageSender, error) {
	mon.Tick()
	n.mu.Lock()
	k := n.nSender[p]
	n.nSender[p]++
	f := n.senderErr
	n.senders++
	id := n.senders
	n.mu.Unlock()
	if f != nil {
		if err := f(p, k); err != nil {
			return nil, err
		}
	}
	return &sender{n, p, id}, nil
}

func (s *sender) Close() error { mon.Tick(); return nil }
func (s *sender) Reset() error { mon.Tick(); return nil }

// hold makes SendMsg to p block until release is called.
func (n *net) hold(p peer.ID) {
	n.mu.Lock()
	n.gate[p] = make(chan struct{})
	n.mu.Unlock()
}

func (n *net) release(p peer.ID) {
	n.mu.Lock()
	if g, ok := n.gate[p]; ok {
		close(g)
		delete(n.gate, p)
	}
	n.mu.Unlock()
}

func (n *net) releaseAll() {
	n.mu.Lock()
	for p, g := range n.gate {
		close(g)
		delete(n.gate, p)
	}
	n.mu.Unlock()
}

func (s *sender) SendMsg(ctx context.Context, m gsmsg.GraphSyncMessage) error {
	n := s.n
	n.mu.Lock()
	g := n.gate[s.p]
	n.mu.Unlock()
	if g != nil {
		atomic.AddInt64(&n.blocked, 1)
		select {
		case <-g:
		case <-ctx.Done():
		}
		atomic.AddInt64(&n.blocked, -1)
	}
	n.mu.Lock()
	k := n.nSend[s.p]
	n.nSend[s.p]++
	f := n.sendErr
	n.mu.Unlock()
	if f != nil {
		if err := f(s.p, k); err != nil {
			n.log.Add("send-fail", "net", "peer=%s attempt=%d", short(s.p), k)
			return err
		}
	}
	rec := wireRec{Peer: s.p, Queue: s.id}
	for _, r := range m.Responses() {
		rec.Reqs = append(rec.Reqs, r.RequestID())
		if d, ok := r.Extension(buildsExt); ok && d != nil {
			// not used: build ids travel in link metadata below
			_ = d
		}
		r.Metadata().Iterate(func(c cid.Cid, a graphsync.LinkAction) {
			buildOfMu.Lock()
			id, ok := buildOf[c.KeyString()]
			buildOfMu.Unlock()
			if ok {
				rec.Builds = append(rec.Builds, id)
			}
		})
	}
	for _, b := range m.Blocks() {
		rec.Bytes += uint64(len(b.RawData()))
	}
	n.mu.Lock()
	rec.Seq = n.log.Add("send", "net", "peer=%s builds=%v bytes=%d", short(s.p), rec.Builds, rec.Bytes)
	n.wire = append(n.wire, rec)
	n.mu.Unlock()
	return nil
}

func short(p peer.ID) string { s := p.String(); return s[len(s)-4:] }

const buildsExt = graphsync.ExtensionName("verif/builds")

// every build carries a unique marker link; buildOf maps the marker back to the build id
var (
	buildOfMu sync.Mutex
	buildOf   = map[string]int64{}
	buildCtr  int64
)

func markerFor(id int64) cid.Cid {
	h, _ := mh.Sum([]byte(fmt.Sprintf("verif-build-%d", id)), mh.SHA2_256, -1)
	c := cid.NewCidV1(cid.Raw, h)
	buildOfMu.Lock()
	buildOf[c.KeyString()] = id
	buildOfMu.Unlock()
	return c
}

// ---------------------------------------------------------------- allocator wrapper (conservation ledger)

type ledger struct {
	real *allocator.Allocator
	mu   sync.Mutex
	log  *mon.Log
	// per peer: granted, released, in the current life of the peer's accounting
	granted    map[peer.ID]uint64
	released   map[peer.ID]uint64
	overRel    []string
	delayPeer  time.Duration // delay inside ReleasePeerMemory (widens the window before a dying queue's shutdown callback)
	inRelPeer  int64
	pendingFwd int64
}

func newLedger(total, perPeer uint64, log *mon.Log) *ledger {
	return &ledger{real: allocator.NewAllocator(total, perPeer), log: log, granted: map[peer.ID]uint64{}, released: map[peer.ID]uint64{}}
}

func (l *ledger) AllocateBlockMemory(p peer.ID, amount uint64) <-chan error {
	mon.Tick()
	in := l.real.AllocateBlockMemory(p, amount)
	out := make(chan error, 1)
	atomic.AddInt64(&l.pendingFwd, 1)
	go func() {
		err := <-in
		if err == nil {
			l.mu.Lock()
			l.granted[p] += amount
			l.mu.Unlock()
		}
		mon.Tick()
		out <- err
		atomic.AddInt64(&l.pendingFwd, -1)
	}()
	return out
}

func (l *ledger) ReleaseBlockMemory(p peer.ID, amount uint64) error {
	mon.Tick()
	l.mu.Lock()
	held := l.granted[p] - l.released[p]
	if amount > held {
		l.overRel = append(l.overRel, fmt.Sprintf("release of %d bytes for peer %s exceeds the %d bytes reserved and not yet released", amount, short(p), held))
		l.released[p] = l.granted[p]
	} else {
		l.released[p] += amount
	}
	l.mu.Unlock()
	return l.real.ReleaseBlockMemory(p, amount)
}

func (l *ledger) ReleasePeerMemory(p peer.ID) error {
	mon.Tick()
	if l.delayPeer > 0 {
		atomic.AddInt64(&l.inRelPeer, 1)
		time.Sleep(l.delayPeer)
		atomic.AddInt64(&l.inRelPeer, -1)
	}
	l.mu.Lock()
	l.released[p] = l.granted[p]
	l.mu.Unlock()
	return l.real.ReleasePeerMemory(p)
}

func (l *ledger) held(p peer.ID) uint64 {
	l.mu.Lock()
	defer l.mu.Unlock()
	return l.granted[p] - l.released[p]
}

// ---------------------------------------------------------------- queue factory wrapper (liveness)

type qinfo struct {
	id       int
	p        peer.ID
	q        *messagequeue.MessageQueue
	created  int64
	started  int64
	shutdown int64 // Shutdown() called
	exited   int64 // onShutdown callback invoked (run loop is returning)
}

type rig struct {
	ctx       context.Context
	cancel    context.CancelFunc
	log       *mon.Log
	net       *net
	led       *ledger
	pm        *peermanager.PeerMessageManager
	ra        *responseassembler.ResponseAssembler
	mu        sync.Mutex
	queues    []*qinfo
	q         *mon.Quiescer
	exitDelay time.Duration
}

type wrappedQueue struct {
	*messagequeue.MessageQueue
	info *qinfo
	r    *rig
}

func (w *wrappedQueue) Startup() {
	atomic.StoreInt64(&w.info.started, mon.Tick())
	w.MessageQueue.Startup()
}
func (w *wrappedQueue) Shutdown() {
	atomic.CompareAndSwapInt64(&w.info.shutdown, 0, mon.Tick())
	w.MessageQueue.Shutdown()
}

func newRig(total, perPeer uint64, retries int) *rig {
	verifhook.Reset()
	log := &mon.Log{}
	ctx, cancel := context.WithCancel(context.Background())
	r := &rig{ctx: ctx, cancel: cancel, log: log, net: newNet(log), led: newLedger(total, perPeer, log)}
	r.pm = peermanager.NewMessageManager(ctx, func(ctx context.Context, p peer.ID, onShutdown func(peer.ID)) peermanager.PeerQueue {
		r.mu.Lock()
		info := &qinfo{id: len(r.queues), p: p, created: mon.Tick()}
		r.queues = append(r.queues, info)
		r.mu.Unlock()
		q := messagequeue.New(ctx, p, r.net, r.led, retries, 10*time.Minute, func(pp peer.ID) {
			atomic.StoreInt64(&info.exited, mon.Tick())
			onShutdown(pp)
		})
		r.mu.Lock()
		info.q = q
		r.mu.Unlock()
		return &wrappedQueue{q, info, r}
	})
	// a queue also shuts itself down (connect / sender failure): the hook reports the moment done is closed
	mon.ExtraSink.Store(func(point string, kv ...any) {
		if point != "mq.shutdown" || len(kv) == 0 {
			return
		}
		mq, _ := kv[0].(*messagequeue.MessageQueue)
		now := mon.Tick()
		r.mu.Lock()
		for _, q := range r.queues {
			if q.q == mq && mq != nil {
				atomic.CompareAndSwapInt64(&q.shutdown, 0, now)
			}
		}
		r.mu.Unlock()
	})
	r.ra = responseassembler.New(ctx, r.pm)
	r.q = &mon.Quiescer{BusyBase: verifhook.BusyCount()}
	r.q.Preds = append(r.q.Preds, func() (bool, string) {
		if b := atomic.LoadInt64(&r.net.blocked); b > 0 {
			// senders deliberately held by the script do not count as activity
			return true, ""
		}
		return true, ""
	}, func() (bool, string) {
		if atomic.LoadInt64(&r.led.pendingFwd) > 0 {
			// an allocation is waiting for memory: only activity if it could be granted, which the clock will show
			return true, ""
		}
		if atomic.LoadInt64(&r.led.inRelPeer) > 0 {
			return false, "a dying queue is inside ReleasePeerMemory"
		}
		return true, ""
	}, func() (bool, string) {
		// a queue that was told to shut down is busy until its run loop has exited
		r.mu.Lock()
		defer r.mu.Unlock()
		for _, q := range r.queues {
			if atomic.LoadInt64(&q.shutdown) != 0 && atomic.LoadInt64(&q.exited) == 0 && atomic.LoadInt64(&q.started) != 0 {
				return false, shuttingDown
			}
		}
		return true, ""
	})
	return r
}

func (r *rig) close() {
	r.net.releaseAll()
	r.cancel()
	mon.AwaitTeardown(10 * time.Second)
	verifhook.Reset()
}

const shuttingDown = "a message queue was told to shut down and its run loop has not exited"

func (r *rig) quiesce() (bool, string) { return r.q.Await(5, 20*time.Second) }

func (r *rig) liveQueues(p peer.ID) []*qinfo {
	r.mu.Lock()
	defer r.mu.Unlock()
	var out []*qinfo
	for _, q := range r.queues {
		if q.p == p && atomic.LoadInt64(&q.started) != 0 && atomic.LoadInt64(&q.exited) == 0 {
			out = append(out, q)
		}
	}
	return out
}

// ---------------------------------------------------------------- subscribers (C16)

type termEvent struct {
	Seq    int64
	Topic  notifications.Topic
	Name   messagequeue.EventName
	Builds []int64
	Err    string
}

type party struct {
	req    graphsync.RequestID
	mu     sync.Mutex
	events []termEvent
	closes map[notifications.Topic]int
	after  []string // events after close of the topic
}

func newParty(req graphsync.RequestID) *party {
	return &party{req: req, closes: map[notifications.Topic]int{}}
}

type buildData struct {
	id   int64
	size uint64
}

func (b buildData) Link() ipld.Link         { return cidlink.Link{Cid: markerFor(b.id)} }
func (b buildData) BlockSize() uint64       { return b.size }
func (b buildData) BlockSizeOnWire() uint64 { return b.size }
func (b buildData) Index() int64            { return b.id }

func (p *party) OnNext(t notifications.Topic, ev notifications.Event) {
	e, ok := ev.(messagequeue.Event)
	if !ok {
		return
	}
	te := termEvent{Seq: mon.Tick(), Topic: t, Name: e.Name}
	if e.Err != nil {
		te.Err = e.Err.Error()
	}
	for _, bd := range e.Metadata.BlockData[p.req] {
		te.Builds = append(te.Builds, bd.Index())
	}
	p.mu.Lock()
	if p.closes[t] > 0 {
		p.after = append(p.after, fmt.Sprintf("event %d on topic %v after OnClose", e.Name, t))
	}
	p.events = append(p.events, te)
	p.mu.Unlock()
}

func (p *party) OnClose(t notifications.Topic) {
	mon.Tick()
	p.mu.Lock()
	p.closes[t]++
	p.mu.Unlock()
}

// ---------------------------------------------------------------- build records

type build struct {
	ID       int64
	Peer     peer.ID
	Req      graphsync.RequestID
	Producer int
	Size     uint64 // bytes reserved for this build
	Call     int64
	Ret      int64
	Kind     string
}

type world struct {
	*rig
	mu      sync.Mutex
	builds  []*build
	parties map[graphsync.RequestID]*party
}

func newWorld(total, perPeer uint64, retries int) *world {
	return &world{rig: newRig(total, perPeer, retries), parties: map[graphsync.RequestID]*party{}}
}

func (w *world) party(req graphsync.RequestID) *party {
	w.mu.Lock()
	defer w.mu.Unlock()
	p, ok := w.parties[req]
	if !ok {
		p = newParty(req)
		w.parties[req] = p
	}
	return p
}

// buildRaw queues data for a peer directly through the peer message manager (as the request
// manager and the response assembler do). blockBytes > 0 adds one block of that size.
func (w *world) buildRaw(producer int, p peer.ID, req graphsync.RequestID, blockBytes int, status graphsync.ResponseStatusCode) *build {
	id := atomic.AddInt64(&buildCtr, 1)
	b := &build{ID: id, Peer: p, Req: req, Producer: producer, Size: uint64(blockBytes), Kind: "raw"}
	party := w.party(req)
	b.Call = mon.Tick()
	w.pm.AllocateAndBuildMessage(p, uint64(blockBytes), func(mb *messagequeue.Builder) {
		marker := markerFor(id)
		mb.AddLink(req, cidlink.Link{Cid: marker}, graphsync.LinkActionPresent)
		if blockBytes > 0 {
			data := make([]byte, blockBytes)
			copy(data, fmt.Sprintf("build-%d", id))
			mb.AddBlock(mustBlock(data))
		}
		if status != 0 {
			mb.AddResponseCode(req, status)
		}
		mb.AddBlockData(req, buildData{id, uint64(blockBytes)})
		mb.SetSubscriber(req, party)
		// the response assembler registers the request's response stream with every message it builds;
		// a failed message closes the streams it carries and scrubs their requests from pending messages
		mb.SetResponseStream(req, nopCloser{})
	})
	b.Ret = mon.Tick()
	w.mu.Lock()
	w.builds = append(w.builds, b)
	w.mu.Unlock()
	return b
}

type nopCloser struct{}

func (nopCloser) Close() error { return nil }

var errInjected = errors.New("verif: injected network failure")

// ---------------------------------------------------------------- C16 / C17 engine

type flap struct {
	At   int // after how many builds (global count)
	Kind string
	Peer int
}

// TestQueue: concurrent producers, send failures, retry exhaustion, connect failures, Connected /
// Disconnected flaps, queue self-shutdown. Decides C16 (exactly-once reporting) and C17 (one live
// queue per peer, none outliving the last disconnect, FIFO).
func TestQueue(t *testing.T) {
	p := rt.Load()
	rep := rt.NewReporter(p)
	defer rep.Flush(false)
	for _, ci := range p.Cases() {
		r := p.RNG("mq", ci)
		npeers := 1 + r.Intn(3)
		nprod := 2 + r.Intn(5)
		perProd := 2 + r.Intn(8)
		retries := 1 + r.Intn(3)
		targeted := ci%3 == 0 // pin a delay between "queue decided to shut down" and its shutdown callback
		w := newWorld(1<<30, 1<<28, retries)
		peers := make([]peer.ID, npeers)
		for i := range peers {
			peers[i] = fab.PeerID(fmt.Sprintf("mq-%d-%d", ci, i))
		}
		// fault plan
		failP := r.Intn(100)
		var failEvery int
		if failP < 50 {
			failEvery = 2 + r.Intn(6)
		}
		faultKind := []string{"none", "send-once", "send-exhaust", "connect", "sender"}[r.Intn(5)]
		var faultMu sync.Mutex
		exhaustFrom := -1
		w.net.sendErr = func(pp peer.ID, n int) error {
			faultMu.Lock()
			defer faultMu.Unlock()
			switch faultKind {
			case "send-once":
				if failEvery > 0 && n%failEvery == 1 {
					return errInjected
				}
			case "send-exhaust":
				if failEvery > 0 && n >= failEvery && (exhaustFrom < 0 || n < exhaustFrom+retries+1) {
					if exhaustFrom < 0 {
						exhaustFrom = n
					}
					return errInjected
				}
			}
			return nil
		}
		if faultKind == "connect" {
			w.net.connectErr = func(pp peer.ID, n int) error {
				if n%3 == 1 {
					return errInjected
				}
				return nil
			}
		}
		if faultKind == "sender" {
			w.net.senderErr = func(pp peer.ID, n int) error {
				if n%3 == 1 {
					return errInjected
				}
				return nil
			}
		}
		if targeted {
			w.led.delayPeer = time.Duration(200+r.Intn(800)) * time.Microsecond
		}
		// connection flaps, driven by a separate goroutine at logical positions (after so many builds)
		nflaps := r.Intn(6)
		refs := make([]int, npeers)
		var flapLog []string
		var fl sync.Mutex
		connected := func(i int) {
			fl.Lock()
			refs[i]++
			flapLog = append(flapLog, fmt.Sprintf("%d connected(p%d)", mon.Now(), i))
			fl.Unlock()
			w.pm.Connected(peers[i])
		}
		disconnected := func(i int) {
			fl.Lock()
			refs[i]--
			flapLog = append(flapLog, fmt.Sprintf("%d disconnected(p%d)", mon.Now(), i))
			fl.Unlock()
			w.pm.Disconnected(peers[i])
		}
		for i := range peers {
			if r.Intn(2) == 0 {
				connected(i)
			}
		}
		rep.Journal("case %d peers=%d producers=%d perProd=%d retries=%d fault=%s every=%d targeted=%v flaps=%d", ci, npeers, nprod, perProd, retries, faultKind, failEvery, targeted, nflaps)
		seeds := make([]int64, nprod+1)
		for i := range seeds {
			seeds[i] = r.Int63()
		}
		reqs := make([][]graphsync.RequestID, npeers)
		for i := range reqs {
			for j := 0; j < 1+r.Intn(3); j++ {
				reqs[i] = append(reqs[i], graphsync.NewRequestID())
			}
		}
		var wg sync.WaitGroup
		var built int64
		buildsInWindow := int64(0)
		for pi := 0; pi < nprod; pi++ {
			wg.Add(1)
			go func(pi int) {
				defer wg.Done()
				lr := rand.New(rand.NewSource(seeds[pi]))
				for k := 0; k < perProd; k++ {
					i := lr.Intn(npeers)
					rq := reqs[i][lr.Intn(len(reqs[i]))]
					sz := 0
					if lr.Intn(3) > 0 {
						sz = 1 + lr.Intn(3000)
					}
					if lr.Intn(40) == 0 {
						sz = 300*1024 + lr.Intn(300*1024)
					}
					st := graphsync.ResponseStatusCode(0)
					if lr.Intn(6) == 0 {
						st = graphsync.PartialResponse
					}
					// did this build start while a queue of that peer had begun shutting down but not exited?
					for _, q := range w.liveQueues(peers[i]) {
						if atomic.LoadInt64(&q.shutdown) != 0 {
							atomic.AddInt64(&buildsInWindow, 1)
						}
					}
					w.buildRaw(pi, peers[i], rq, sz, st)
					atomic.AddInt64(&built, 1)
					if lr.Intn(3) == 0 {
						time.Sleep(time.Duration(lr.Intn(300)) * time.Microsecond)
					}
				}
			}(pi)
		}
		// flapper
		wg.Add(1)
		go func() {
			defer wg.Done()
			lr := rand.New(rand.NewSource(seeds[nprod]))
			for f := 0; f < nflaps; f++ {
				time.Sleep(time.Duration(lr.Intn(1500)) * time.Microsecond)
				i := lr.Intn(npeers)
				fl.Lock()
				rc := refs[i]
				fl.Unlock()
				if rc > 0 && lr.Intn(3) > 0 {
					disconnected(i)
				} else {
					connected(i)
				}
			}
		}()
		wg.Wait()
		inc := ""
		if ok, why := w.quiesce(); !ok {
			inc = why
		}
		rep.Eval()
		detail := func() map[string]any {
			var bl []string
			w.mu.Lock()
			for _, b := range w.builds {
				bl = append(bl, fmt.Sprintf("build %d producer=%d peer=%s req=%s size=%d call=%d ret=%d", b.ID, b.Producer, short(b.Peer), b.Req.String()[:8], b.Size, b.Call, b.Ret))
			}
			w.mu.Unlock()
			var ql []string
			w.rig.mu.Lock()
			for _, q := range w.queues {
				ql = append(ql, fmt.Sprintf("queue %d peer=%s created=%d started=%d shutdown=%d exited=%d", q.id, short(q.p), q.created, atomic.LoadInt64(&q.started), atomic.LoadInt64(&q.shutdown), atomic.LoadInt64(&q.exited)))
			}
			w.rig.mu.Unlock()
			fl.Lock()
			fls := append([]string(nil), flapLog...)
			fl.Unlock()
			var evs []string
			w.mu.Lock()
			for rq, pt := range w.parties {
				pt.mu.Lock()
				for _, e := range pt.events {
					evs = append(evs, fmt.Sprintf("seq=%d request=%s topic=%v event=%d builds=%v %s", e.Seq, rq.String()[:8], e.Topic, e.Name, e.Builds, e.Err))
				}
				for tp, n := range pt.closes {
					evs = append(evs, fmt.Sprintf("request=%s topic=%v closed x%d", rq.String()[:8], tp, n))
				}
				pt.mu.Unlock()
			}
			w.mu.Unlock()
			sort.Strings(evs)
			return map[string]any{"case": ci, "peers": npeers, "producers": nprod, "retries": retries, "fault": faultKind, "fail_every": failEvery, "targeted_shutdown_delay": targeted, "subscriber_events": evs,
				"builds": bl, "queues": ql, "connection_events": fls, "event_log_tail": w.log.Tail(80)}
		}
		if inc == shuttingDown && p.Prop == "C17" {
			rep.Violation(ci, "C17/queue-never-exits-after-shutdown", "a queue whose peer's last connection went away was shut down but its run loop is still live after 20 s with nothing else happening", detail())
			w.close()
			continue
		}
		if inc != "" {
			rep.Inconclusive("case %d: %s", ci, inc)
			w.close()
			continue
		}
		if p.Prop == "C16" {
			checkC16(rep, ci, w, detail)
			rep.Count("builds_started_inside_a_queue_shutdown_window", atomic.LoadInt64(&buildsInWindow))
		}
		if p.Prop == "C17" {
			fl.Lock()
			rc := append([]int(nil), refs...)
			fl.Unlock()
			checkC17(rep, ci, w, peers, rc, detail)
		}
		rep.Nontrivial(rt.Key("mq", ci, atomic.LoadInt64(&built)))
		rep.Count("builds", atomic.LoadInt64(&built))
		rep.SetAdd("fault_kinds", faultKind)
		if ci%200 == 0 {
			d := detail()
			delete(d, "event_log_tail")
			if b, ok := d["builds"].([]string); ok && len(b) > 6 {
				d["builds"] = b[:6]
			}
			rep.Sample(d)
		}
		w.close()
	}
	rep.Flush(true)
}

// checkC16: every build must be covered by exactly one terminal event (Sent or Error) delivered to
// its request's party; zero is allowed only under the documented scrub rule.
func checkC16(rep *rt.Reporter, ci int, w *world, detail func() map[string]any) {
	w.mu.Lock()
	builds := append([]*build(nil), w.builds...)
	parties := map[graphsync.RequestID]*party{}
	for k, v := range w.parties {
		parties[k] = v
	}
	w.mu.Unlock()
	// (topics are numbered per queue instance, so a party cannot tell messages of successive
	// queues apart by topic: exactly-once is decided per build id carried in the event metadata)
	covered := map[int64]int{}
	var errEvents []termEvent
	errByReq := map[graphsync.RequestID][]termEvent{}
	for _, pt := range parties {
		pt.mu.Lock()
		for _, e := range pt.events {
			if e.Name == messagequeue.Sent || e.Name == messagequeue.Error {
				for _, b := range e.Builds {
					covered[b]++
				}
			}
			if e.Name == messagequeue.Error {
				errEvents = append(errEvents, e)
				errByReq[pt.req] = append(errByReq[pt.req], e)
			}
		}
		pt.mu.Unlock()
	}
	lost, scrubbed := 0, 0
	for _, b := range builds {
		switch n := covered[b.ID]; {
		case n > 1:
			rep.Violation(ci, "C16/reported-twice", fmt.Sprintf("build %d (request %s) was reported %d times", b.ID, b.Req.String()[:8], n), detail())
			return
		case n == 0:
			// scrub rule: an Error was delivered for the same request after this build began
			exempt := false
			for _, e := range errByReq[b.Req] {
				if e.Seq > b.Call {
					exempt = true
				}
			}
			if exempt {
				scrubbed++
				continue
			}
			lost++
			// known-finding predicate: the queue instance the build went to had begun shutting down (or was exiting) before the build returned
			dying := false
			w.rig.mu.Lock()
			for _, q := range w.queues {
				// (q.shutdown is the moment the queue's done channel was closed, reported by a hook, whether
				// the peer manager or the queue itself shut it down)
				sd := atomic.LoadInt64(&q.shutdown)
				if q.p == b.Peer && sd != 0 && sd < b.Ret {
					dying = true
				}
			}
			w.rig.mu.Unlock()
			sig := "C16/never-reported"
			if dying {
				sig = "C16/build-into-dying-queue"
			}
			rep.Violation(ci, sig, fmt.Sprintf("build %d (request %s, peer %s, %d bytes) was queued but never reported sent or failed (system quiescent, context alive)", b.ID, b.Req.String()[:8], short(b.Peer), b.Size), detail())
			return
		}
	}
	rep.Count("builds_discarded_by_scrub_rule", int64(scrubbed))
	rep.Count("error_events", int64(len(errEvents)))
}

// checkC17 at the final quiescent point.
func checkC17(rep *rt.Reporter, ci int, w *world, peers []peer.ID, refs []int, detail func() map[string]any) {
	tracked := map[peer.ID]bool{}
	for _, pp := range w.pm.ConnectedPeers() {
		tracked[pp] = true
	}
	for i, pp := range peers {
		live := w.liveQueues(pp)
		if len(live) > 1 {
			rep.Violation(ci, "C17/two-live-queues", fmt.Sprintf("peer p%d has %d live message queues at a quiescent point", i, len(live)), detail())
			return
		}
		if len(live) == 1 {
			if !tracked[pp] {
				rep.Violation(ci, "C17/live-queue-not-in-peer-table", fmt.Sprintf("peer p%d has a live queue (#%d) that the peer manager no longer tracks", i, live[0].id), detail())
				return
			}
			cur := w.pm.GetProcess(pp).(*wrappedQueue)
			if cur.info != live[0] {
				rep.Violation(ci, "C17/live-queue-is-not-the-tracked-one", fmt.Sprintf("peer p%d: live queue #%d is not the queue in the peer table (#%d)", i, live[0].id, cur.info.id), detail())
				return
			}
			// a queue must not outlive the last disconnect of its peer: if the last connection event for the
			// peer is a disconnect that brought the count to <= 0 and no message was queued afterwards, no queue may live
			lastBuild := int64(0)
			w.mu.Lock()
			for _, b := range w.builds {
				if b.Peer == pp && b.Ret > lastBuild {
					lastBuild = b.Ret
				}
			}
			w.mu.Unlock()
			if refs[i] <= 0 && live[0].created < lastDisconnect(detail, i) && lastBuild < lastDisconnect(detail, i) {
				rep.Violation(ci, "C17/queue-outlives-last-disconnect", fmt.Sprintf("peer p%d: queue #%d is still live although all connections are gone and nothing was queued since the last disconnect", i, live[0].id), detail())
				return
			}
		}
	}
	// FIFO: builds ordered by happens-before to the same peer must not appear on the wire in the opposite order
	pos := map[int64]int{}
	w.net.mu.Lock()
	for i, rec := range w.net.wire {
		for _, b := range rec.Builds {
			if _, ok := pos[b]; !ok {
				pos[b] = i
			}
		}
	}
	w.net.mu.Unlock()
	w.mu.Lock()
	builds := append([]*build(nil), w.builds...)
	w.mu.Unlock()
	sort.Slice(builds, func(i, j int) bool { return builds[i].Call < builds[j].Call })
	for i, a := range builds {
		pa, oka := pos[a.ID]
		if !oka {
			continue
		}
		for _, b := range builds[i+1:] {
			pb, okb := pos[b.ID]
			if !okb || a.Peer != b.Peer || a.Ret >= b.Call {
				continue
			}
			if pb < pa {
				sig := "C17/out-of-order"
				// known-finding predicate (factory events only): a successor queue for the peer was created after the
				// earlier build started and before the later build returned, i.e. the two builds went to a
				// predecessor queue and its replacement, whose lifetimes overlap
				w.rig.mu.Lock()
				for _, q := range w.queues {
					if q.p == a.Peer && q.created > a.Call && q.created <= b.Ret {
						sig = "C17/reorder-across-queue-replacement"
					}
				}
				w.rig.mu.Unlock()
				rep.Violation(ci, sig, fmt.Sprintf("build %d was queued (returned at %d) before build %d was started (%d) for the same peer, but left in wire message %d after build %d's message %d", a.ID, a.Ret, b.ID, b.Call, pa, b.ID, pb), detail())
				return
			}
		}
	}
	rep.Count("wire_messages", int64(len(w.net.wire)))
	rep.Count("queues_created", int64(len(w.queues)))
}

func lastDisconnect(detail func() map[string]any, i int) int64 {
	d := detail()
	evs, _ := d["connection_events"].([]string)
	last := int64(0)
	for _, e := range evs {
		var seq int64
		var pi int
		if n, _ := fmt.Sscanf(e, "%d disconnected(p%d)", &seq, &pi); n == 2 && pi == i {
			last = seq
		}
	}
	return last
}

var _ = basicnode.NewString

func mustBlock(data []byte) blocks.Block { return blocks.NewBlock(data) }

// ---------------------------------------------------------------- C15: conservation of reserved memory

type c15op struct {
	Kind string // block, ext, finish, pause
	Size int
}

// TestLedger: response operations queued through the real responseassembler, split over messages,
// with send failures, retry exhaustion, connect failures and queue shutdown. At every idle point
// the memory accounted to each peer must be zero, and no release may exceed what was reserved.
func TestLedger(t *testing.T) {
	p := rt.Load()
	rep := rt.NewReporter(p)
	defer rep.Flush(false)
	for _, ci := range p.Cases() {
		r := p.RNG("c15", ci)
		retries := 1 + r.Intn(3)
		// a third of the cases run with a per-peer allowance of a few blocks, so that transactions wait
		// for memory while earlier messages are held, sent or failed
		tight := p.RNG("c15tight", ci).Intn(3) == 0
		perPeer := uint64(1 << 28)
		if tight {
			perPeer = uint64(4200 + p.RNG("c15tight2", ci).Intn(12000))
		}
		w := newWorld(1<<30, perPeer, retries)
		npeers := 1 + r.Intn(2)
		peers := make([]peer.ID, npeers)
		for i := range peers {
			peers[i] = fab.PeerID(fmt.Sprintf("c15-%d-%d", ci, i))
		}
		fault := []string{"none", "none", "send-once", "send-exhaust", "connect", "sender", "disconnect"}[r.Intn(7)]
		failAt := r.Intn(4)
		hold := r.Intn(2) == 0
		var fmu sync.Mutex
		fails := 0
		w.net.sendErr = func(pp peer.ID, n int) error {
			fmu.Lock()
			defer fmu.Unlock()
			switch fault {
			case "send-once":
				if n == failAt {
					fails++
					return errInjected
				}
			case "send-exhaust":
				if n >= failAt && n < failAt+retries {
					fails++
					return errInjected
				}
			}
			return nil
		}
		if fault == "connect" {
			w.net.connectErr = func(pp peer.ID, n int) error {
				if n == failAt%2 {
					return errInjected
				}
				return nil
			}
		}
		if fault == "sender" {
			w.net.senderErr = func(pp peer.ID, n int) error {
				if n == failAt%2 {
					return errInjected
				}
				return nil
			}
		}
		for _, pp := range peers {
			w.pm.Connected(pp)
			if hold {
				w.net.hold(pp)
			}
		}
		type reqPlan struct {
			peer int
			id   graphsync.RequestID
			ops  []c15op
		}
		var plans []reqPlan
		hasExt, nBlocks, nBig := false, 0, 0
		for i := range peers {
			for j := 0; j < 1+r.Intn(4); j++ {
				pl := reqPlan{peer: i, id: graphsync.NewRequestID()}
				for k := 0; k < 1+r.Intn(6); k++ {
					switch x := r.Intn(10); {
					case x < 6:
						sz := 1 + r.Intn(4000)
						if r.Intn(15) == 0 && !tight {
							sz = 300*1024 + r.Intn(300*1024)
							nBig++
						}
						pl.ops = append(pl.ops, c15op{"block", sz})
						nBlocks++
					case x < 8:
						pl.ops = append(pl.ops, c15op{"ext", 1 + r.Intn(300)})
						hasExt = true
					case x < 9:
						pl.ops = append(pl.ops, c15op{"pause", 0})
					default:
						pl.ops = append(pl.ops, c15op{"missing", 0})
					}
				}
				pl.ops = append(pl.ops, c15op{[]string{"finish", "finish", "finish-error"}[r.Intn(3)], 0})
				plans = append(plans, pl)
			}
		}
		rep.Journal("case %d peers=%d requests=%d fault=%s failAt=%d hold=%v retries=%d ext=%v perPeer=%d", ci, npeers, len(plans), fault, failAt, hold, retries, hasExt, perPeer)
		var wg sync.WaitGroup
		var opsDone int64
		lastOp := make([]int64, npeers) // logical clock of the last completed operation per peer
		for _, pl := range plans {
			wg.Add(1)
			go func(pl reqPlan) {
				defer wg.Done()
				st := w.ra.NewStream(w.ctx, peers[pl.peer], pl.id, w.party(pl.id))
				for oi, o := range pl.ops {
					_ = st.Transaction(func(rb responseassembler.ResponseBuilder) error {
						switch o.Kind {
						case "block":
							data := make([]byte, o.Size)
							copy(data, fmt.Sprintf("c15-%d-%s-%d", ci, pl.id.String()[:8], oi))
							blk := mustBlock(data)
							rb.SendResponse(cidlink.Link{Cid: blk.Cid()}, data)
						case "missing":
							rb.SendResponse(cidlink.Link{Cid: markerFor(atomic.AddInt64(&buildCtr, 1))}, nil)
						case "ext":
							rb.SendExtensionData(graphsync.ExtensionData{Name: "verif/c15", Data: basicnode.NewBytes(make([]byte, o.Size))})
						case "pause":
							rb.PauseRequest()
						case "finish":
							rb.FinishRequest()
						case "finish-error":
							rb.FinishWithError(graphsync.RequestFailedUnknown)
						}
						return nil
					})
					atomic.AddInt64(&opsDone, 1)
					now := mon.Tick()
					for {
						old := atomic.LoadInt64(&lastOp[pl.peer])
						if now <= old || atomic.CompareAndSwapInt64(&lastOp[pl.peer], old, now) {
							break
						}
					}
				}
			}(pl)
		}
		var stopRel chan struct{}
		if tight && hold {
			// with a small allowance the producers wait for memory that only completed sends give back:
			// lift the hold once a reservation is actually waiting (otherwise: when the producers are done)
			stopRel = make(chan struct{})
			stop := stopRel
			go func() {
				for {
					select {
					case <-stop:
						return
					default:
					}
					if atomic.LoadInt64(&w.led.pendingFwd) > 0 {
						time.Sleep(300 * time.Microsecond)
						w.net.releaseAll()
						return
					}
					time.Sleep(100 * time.Microsecond)
				}
			}()
		}
		// the producers normally finish; if one of them is still waiting for memory while everything else is
		// quiescent (nothing in flight, nothing queued, held sends released) it will wait forever
		prodDone := make(chan struct{})
		go func() { wg.Wait(); close(prodDone) }()
		stuck := false
		for waiting := true; waiting; {
			select {
			case <-prodDone:
				waiting = false
			case <-time.After(200 * time.Millisecond):
				if atomic.LoadInt64(&w.net.blocked) == 0 && atomic.LoadInt64(&w.led.pendingFwd) > 0 {
					if ok, _ := w.q.Sustained(2 * time.Second); ok && atomic.LoadInt64(&w.led.pendingFwd) > 0 {
						select {
						case <-prodDone:
						default:
							stuck = true
						}
						waiting = false
					}
				}
			}
		}
		if stopRel != nil {
			close(stopRel)
		}
		if stuck {
			rep.Eval()
			var held []string
			for i, pp := range peers {
				held = append(held, fmt.Sprintf("p%d: allocator reports %d bytes, ledger reserved-released %d", i, w.led.real.AllocatedForPeer(pp), w.led.held(pp)))
			}
			stuckSig := "C15/reservation-waits-forever-on-idle-queue"
			// recorded finding: data reserved for a queue that had begun shutting down (connect / sender failure,
			// last disconnect) is never sent, failed or released - here it is what the waiting transaction waits for
			w.rig.mu.Lock()
			for _, q := range w.queues {
				if sd, ex := atomic.LoadInt64(&q.shutdown), atomic.LoadInt64(&q.exited); sd != 0 || ex != 0 {
					stuckSig = "C15/build-into-dying-queue"
				}
			}
			w.rig.mu.Unlock()
			rep.Violation(ci, stuckSig, fmt.Sprintf("a response transaction is waiting for memory although nothing is queued or in flight for the peer any more (%v): the bytes it waits for are accounted to the idle peer", held),
				map[string]any{"case": ci, "fault": fault, "fail_at_send": failAt, "retries": retries, "first_send_held": hold, "per_peer_allowance": perPeer, "event_log_tail": w.log.Tail(60)})
			w.close()
			<-prodDone
			continue
		}
		if fault == "disconnect" {
			w.pm.Disconnected(peers[r.Intn(npeers)])
		}
		w.net.releaseAll()
		inc := ""
		if ok, why := w.quiesce(); !ok {
			inc = why
		}
		rep.Eval()
		detail := func() map[string]any {
			var pls []string
			for _, pl := range plans {
				pls = append(pls, fmt.Sprintf("peer p%d request %s ops %v", pl.peer, pl.id.String()[:8], pl.ops))
			}
			return map[string]any{"case": ci, "fault": fault, "fail_at_send": failAt, "retries": retries, "first_send_held": hold, "per_peer_allowance": perPeer, "plans": pls,
				"has_extension_data": hasExt, "event_log_tail": w.log.Tail(60)}
		}
		if inc != "" {
			rep.Inconclusive("case %d: %s", ci, inc)
			w.close()
			continue
		}
		w.led.mu.Lock()
		over := append([]string(nil), w.led.overRel...)
		w.led.mu.Unlock()
		if len(over) > 0 {
			rep.Violation(ci, "C15/release-exceeds-reservation", over[0], detail())
		}
		for i, pp := range peers {
			real := w.led.real.AllocatedForPeer(pp)
			if real != 0 {
				sig := "C15/memory-left-allocated-on-idle-queue"
				// known-finding predicate: response data was still being queued for the peer after one of its
				// queues had begun shutting down (data built into a dying queue is never sent, failed or released)
				w.rig.mu.Lock()
				for _, q := range w.queues {
					if q.p != pp {
						continue
					}
					sd, ex := atomic.LoadInt64(&q.shutdown), atomic.LoadInt64(&q.exited)
					first := sd
					if first == 0 || (ex != 0 && ex < first) {
						first = ex
					}
					if first != 0 && first < atomic.LoadInt64(&lastOp[i]) {
						sig = "C15/build-into-dying-queue"
					}
				}
				w.rig.mu.Unlock()
				rep.Violation(ci, sig, fmt.Sprintf("peer p%d's queue is idle but %d bytes are still accounted to it (ledger: reserved-released = %d)", i, real, w.led.held(pp)), detail())
				break
			}
		}
		// data on the wire never exceeds what was reserved
		var wireBytes uint64
		w.net.mu.Lock()
		for _, rec := range w.net.wire {
			wireBytes += rec.Bytes
		}
		w.net.mu.Unlock()
		var granted uint64
		w.led.mu.Lock()
		for _, g := range w.led.granted {
			granted += g
		}
		w.led.mu.Unlock()
		if wireBytes > granted {
			rep.Violation(ci, "C15/data-sent-without-reservation", fmt.Sprintf("%d block bytes left on the wire but only %d bytes were ever reserved", wireBytes, granted), detail())
		}
		rep.Nontrivial(rt.Key("c15", ci, atomic.LoadInt64(&opsDone)))
		rep.Count("response_operations", atomic.LoadInt64(&opsDone))
		rep.Count("bytes_reserved", int64(granted))
		rep.Count("injected_send_failures", int64(fails))
		rep.SetAdd("fault_kinds", fault)
		if nBig > 0 {
			rep.Count("cases_with_message_split", 1)
		}
		if ci%200 == 0 {
			d := detail()
			delete(d, "event_log_tail")
			rep.Sample(d)
		}
		w.close()
	}
	rep.Flush(true)
}

// ---------------------------------------------------------------- scripted histories (C16, C17)

// TestQueueScripted builds the histories the concurrent workload rarely produces: a message held
// inside SendMsg with several messages queued behind it, then (a) every retry of the held message
// fails, so its requests are scrubbed from the pending messages, or (b) the peer's last connection
// goes away (queue Shutdown) while the held send later succeeds or fails.
func TestQueueScripted(t *testing.T) {
	p := rt.Load()
	rep := rt.NewReporter(p)
	defer rep.Flush(false)
	kinds := []string{"held-send-fails-all-retries", "shutdown-then-held-send-succeeds", "shutdown-then-held-send-fails", "shutdown-with-small-messages-queued"}
	for _, ci := range p.Cases() {
		r := p.RNG("mqs", ci)
		kind := kinds[ci%len(kinds)]
		retries := 1 + r.Intn(3)
		w := newWorld(1<<30, 1<<29, retries)
		pp := fab.PeerID(fmt.Sprintf("mqs-%d", ci))
		var flapLog []string
		refs := []int{0}
		if kind != "held-send-fails-all-retries" || r.Intn(2) == 0 {
			refs[0]++
			flapLog = append(flapLog, fmt.Sprintf("%d connected(p0)", mon.Now()))
			w.pm.Connected(pp)
		}
		rep.Journal("case %d kind=%s retries=%d", ci, kind, retries)
		w.net.hold(pp)
		nreq := 2 + r.Intn(3)
		reqs := make([]graphsync.RequestID, nreq)
		for i := range reqs {
			reqs[i] = graphsync.NewRequestID()
		}
		big := func() int { return 300*1024 + r.Intn(100*1024) } // two of these never share a message
		var script []string
		mk := func(ri, size int) {
			b := w.buildRaw(0, pp, reqs[ri], size, 0)
			script = append(script, fmt.Sprintf("build %d request #%d size=%d", b.ID, ri, size))
		}
		mk(0, big())
		inc := ""
		// the first message must be inside SendMsg before the rest is queued behind it
		for t0 := time.Now(); atomic.LoadInt64(&w.net.blocked) == 0; {
			if time.Since(t0) > 20*time.Second {
				inc = "the first message never reached SendMsg"
				break
			}
			time.Sleep(100 * time.Microsecond)
		}
		nPending := 3 + r.Intn(5)
		for k := 0; k < nPending && inc == ""; k++ {
			ri := r.Intn(nreq)
			if kind != "held-send-fails-all-retries" {
				ri = 1 + r.Intn(nreq-1) // the held message's request is not shared: no scrub-rule exemption can hide it
			}
			if kind == "held-send-fails-all-retries" && k == 0 {
				ri = 0 // a pending message that only carries the failing request, with others queued after it
			} else if kind == "held-send-fails-all-retries" && k > 0 && k < 3 {
				ri = 1 + r.Intn(nreq-1)
			}
			size := big()
			if kind == "shutdown-with-small-messages-queued" || r.Intn(5) == 0 {
				size = r.Intn(2000)
			}
			mk(ri, size)
		}
		switch kind {
		case "held-send-fails-all-retries":
			w.net.sendErr = func(_ peer.ID, n int) error {
				if n < retries {
					return errInjected
				}
				return nil
			}
			script = append(script, fmt.Sprintf("first %d send attempts fail", retries))
		case "shutdown-then-held-send-fails":
			nf := 1 + r.Intn(retries)
			w.net.sendErr = func(_ peer.ID, n int) error {
				if n < nf {
					return errInjected
				}
				return nil
			}
			script = append(script, fmt.Sprintf("first %d send attempts fail", nf))
		}
		if kind != "held-send-fails-all-retries" && inc == "" {
			refs[0]--
			flapLog = append(flapLog, fmt.Sprintf("%d disconnected(p0)", mon.Now()))
			w.pm.Disconnected(pp)
			script = append(script, "Disconnected (last connection)")
		}
		w.net.releaseAll()
		script = append(script, "held send released")
		if inc == "" {
			if ok, why := w.quiesce(); !ok {
				inc = why
			}
		}
		rep.Eval()
		detail := func() map[string]any {
			var ql []string
			w.rig.mu.Lock()
			for _, q := range w.queues {
				ql = append(ql, fmt.Sprintf("queue %d peer=%s created=%d started=%d shutdown=%d exited=%d", q.id, short(q.p), q.created, atomic.LoadInt64(&q.started), atomic.LoadInt64(&q.shutdown), atomic.LoadInt64(&q.exited)))
			}
			w.rig.mu.Unlock()
			var wl []string
			w.net.mu.Lock()
			for _, rec := range w.net.wire {
				wl = append(wl, fmt.Sprintf("seq=%d builds=%v bytes=%d", rec.Seq, rec.Builds, rec.Bytes))
			}
			w.net.mu.Unlock()
			return map[string]any{"case": ci, "kind": kind, "retries": retries, "script": script, "queues": ql, "wire": wl, "connection_events": append([]string(nil), flapLog...), "event_log_tail": w.log.Tail(60)}
		}
		switch {
		case inc == shuttingDown && p.Prop == "C17":
			rep.Violation(ci, "C17/queue-never-exits-after-shutdown", "a queue whose peer's last connection went away was shut down but its run loop is still live after 20 s with nothing else happening", detail())
		case inc != "":
			rep.Inconclusive("case %d: %s", ci, inc)
		default:
			if p.Prop == "C16" {
				checkC16(rep, ci, w, detail)
			}
			if p.Prop == "C17" {
				checkC17(rep, ci, w, []peer.ID{pp}, refs, detail)
			}
			rep.Nontrivial(rt.Key("mqs", ci, kind, retries, nPending))
			rep.Count("scripted_histories", 1)
			rep.SetAdd("scripted_kinds", kind)
		}
		if ci%101 == 0 {
			d := detail()
			delete(d, "event_log_tail")
			rep.Sample(d)
		}
		w.close()
	}
	rep.Flush(true)
}

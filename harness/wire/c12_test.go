package wire

import (
	"bytes"
	"context"
	"encoding/binary"
	"encoding/hex"
	"fmt"
	"io"
	"math/rand"
	"sync"
	"sync/atomic"
	"testing"
	"time"

	"github.com/ipfs/go-cid"
	"github.com/ipld/go-ipld-prime/codec/dagcbor"
	"github.com/ipld/go-ipld-prime/datamodel"
	"github.com/ipld/go-ipld-prime/fluent/qp"
	cidlink "github.com/ipld/go-ipld-prime/linking/cid"
	"github.com/ipld/go-ipld-prime/node/basicnode"
	"github.com/libp2p/go-libp2p/core/host"
	"github.com/libp2p/go-libp2p/core/network"
	"github.com/libp2p/go-libp2p/core/peer"
	mocknet "github.com/libp2p/go-libp2p/p2p/net/mock"
	"github.com/libp2p/go-msgio"

	"github.com/ipfs/go-graphsync"
	gsimpl "github.com/ipfs/go-graphsync/impl"
	gsmsg "github.com/ipfs/go-graphsync/message"
	gsmsgv2 "github.com/ipfs/go-graphsync/message/v2"
	gsnet "github.com/ipfs/go-graphsync/network"

	"verif/harness/gen"
	"verif/harness/mon"
	"verif/harness/rt"
	"verif/harness/store"
)

// frame prefixes a body with its uvarint length.
func frame(body []byte) []byte {
	l := make([]byte, binary.MaxVarintLen64)
	n := binary.PutUvarint(l, uint64(len(body)))
	return append(l[:n], body...)
}

func encodeNode(n datamodel.Node) []byte {
	var buf bytes.Buffer
	_ = dagcbor.Encode(n, &buf)
	return buf.Bytes()
}

// structured builds structurally valid dag-cbor messages with optional fields omitted, nulls, wrong kinds.
func structured(r *rand.Rand, root cid.Cid) ([]byte, string) {
	id := graphsync.NewRequestID().Bytes()
	sel := gen.AllSelectorDepth(5)
	type fld struct {
		k string
		v qp.Assemble
	}
	req := func(fs ...fld) datamodel.Node {
		n, _ := qp.BuildMap(basicnode.Prototype.Any, -1, func(ma datamodel.MapAssembler) {
			qp.MapEntry(ma, "gs2", qp.Map(-1, func(ma datamodel.MapAssembler) {
				qp.MapEntry(ma, "req", qp.List(-1, func(la datamodel.ListAssembler) {
					qp.ListEntry(la, qp.Map(-1, func(ma datamodel.MapAssembler) {
						for _, f := range fs {
							qp.MapEntry(ma, f.k, f.v)
						}
					}))
				}))
			}))
		})
		return n
	}
	ext := func(name string, v qp.Assemble) qp.Assemble {
		return qp.Map(-1, func(ma datamodel.MapAssembler) { qp.MapEntry(ma, name, v) })
	}
	null := qp.Null()
	kinds := []struct {
		name string
		n    datamodel.Node
	}{
		{"new-without-selector", req(fld{"id", qp.Bytes(id)}, fld{"type", qp.String("n")}, fld{"root", qp.Link(cidlink.Link{Cid: root})})},
		{"new-without-root", req(fld{"id", qp.Bytes(id)}, fld{"type", qp.String("n")}, fld{"sel", qp.Node(sel)})},
		{"new-without-root-and-selector", req(fld{"id", qp.Bytes(id)}, fld{"type", qp.String("n")})},
		{"new-null-do-not-send-cids", req(fld{"id", qp.Bytes(id)}, fld{"type", qp.String("n")}, fld{"root", qp.Link(cidlink.Link{Cid: root})}, fld{"sel", qp.Node(sel)}, fld{"ext", ext(string(graphsync.ExtensionDoNotSendCIDs), null)})},
		{"new-null-do-not-send-first-blocks", req(fld{"id", qp.Bytes(id)}, fld{"type", qp.String("n")}, fld{"root", qp.Link(cidlink.Link{Cid: root})}, fld{"sel", qp.Node(sel)}, fld{"ext", ext(string(graphsync.ExtensionsDoNotSendFirstBlocks), null)})},
		{"new-null-dedup-by-key", req(fld{"id", qp.Bytes(id)}, fld{"type", qp.String("n")}, fld{"root", qp.Link(cidlink.Link{Cid: root})}, fld{"sel", qp.Node(sel)}, fld{"ext", ext(string(graphsync.ExtensionDeDupByKey), null)})},
		{"new-wrong-kind-do-not-send-cids", req(fld{"id", qp.Bytes(id)}, fld{"type", qp.String("n")}, fld{"root", qp.Link(cidlink.Link{Cid: root})}, fld{"sel", qp.Node(sel)}, fld{"ext", ext(string(graphsync.ExtensionDoNotSendCIDs), qp.String("x"))})},
		{"new-wrong-kind-first-blocks", req(fld{"id", qp.Bytes(id)}, fld{"type", qp.String("n")}, fld{"root", qp.Link(cidlink.Link{Cid: root})}, fld{"sel", qp.Node(sel)}, fld{"ext", ext(string(graphsync.ExtensionsDoNotSendFirstBlocks), qp.String("x"))})},
		{"new-selector-wrong-kind", req(fld{"id", qp.Bytes(id)}, fld{"type", qp.String("n")}, fld{"root", qp.Link(cidlink.Link{Cid: root})}, fld{"sel", qp.Int(3)})},
		{"new-selector-null", req(fld{"id", qp.Bytes(id)}, fld{"type", qp.String("n")}, fld{"root", qp.Link(cidlink.Link{Cid: root})}, fld{"sel", null})},
		{"new-selector-garbage-map", req(fld{"id", qp.Bytes(id)}, fld{"type", qp.String("n")}, fld{"root", qp.Link(cidlink.Link{Cid: root})}, fld{"sel", qp.Map(-1, func(ma datamodel.MapAssembler) { qp.MapEntry(ma, "Z", qp.Int(1)) })})},
		{"short-id", req(fld{"id", qp.Bytes(id[:7])}, fld{"type", qp.String("n")}, fld{"root", qp.Link(cidlink.Link{Cid: root})}, fld{"sel", qp.Node(sel)})},
		{"empty-id", req(fld{"id", qp.Bytes(nil)}, fld{"type", qp.String("c")})},
		{"long-id", req(fld{"id", qp.Bytes(append(append([]byte{}, id...), 1, 2))}, fld{"type", qp.String("n")}, fld{"root", qp.Link(cidlink.Link{Cid: root})}, fld{"sel", qp.Node(sel)})},
		{"unknown-type", req(fld{"id", qp.Bytes(id)}, fld{"type", qp.String("q")})},
		{"update-unknown-id", req(fld{"id", qp.Bytes(id)}, fld{"type", qp.String("u")}, fld{"ext", ext("x", null)})},
		{"cancel-unknown-id", req(fld{"id", qp.Bytes(id)}, fld{"type", qp.String("c")})},
		{"huge-priority", req(fld{"id", qp.Bytes(id)}, fld{"type", qp.String("n")}, fld{"root", qp.Link(cidlink.Link{Cid: root})}, fld{"sel", qp.Node(sel)}, fld{"pri", qp.Int(1 << 40)})},
		{"valid-new", req(fld{"id", qp.Bytes(id)}, fld{"type", qp.String("n")}, fld{"root", qp.Link(cidlink.Link{Cid: root})}, fld{"sel", qp.Node(sel)})},
	}
	// responses / blocks with hostile content
	respMsg := func(meta qp.Assemble, blocks qp.Assemble, status int64, idb []byte) datamodel.Node {
		n, _ := qp.BuildMap(basicnode.Prototype.Any, -1, func(ma datamodel.MapAssembler) {
			qp.MapEntry(ma, "gs2", qp.Map(-1, func(ma datamodel.MapAssembler) {
				qp.MapEntry(ma, "rsp", qp.List(-1, func(la datamodel.ListAssembler) {
					qp.ListEntry(la, qp.Map(-1, func(ma datamodel.MapAssembler) {
						qp.MapEntry(ma, "reqid", qp.Bytes(idb))
						qp.MapEntry(ma, "stat", qp.Int(status))
						if meta != nil {
							qp.MapEntry(ma, "meta", meta)
						}
					}))
				}))
				if blocks != nil {
					qp.MapEntry(ma, "blk", blocks)
				}
			}))
		})
		return n
	}
	badPrefixBlocks := qp.List(-1, func(la datamodel.ListAssembler) {
		qp.ListEntry(la, qp.List(-1, func(la datamodel.ListAssembler) {
			qp.ListEntry(la, qp.Bytes([]byte{0xff, 0xff, 0xff, 0xff, 0xff, 0x01}))
			qp.ListEntry(la, qp.Bytes([]byte("data")))
		}))
	})
	okPrefixBlocks := qp.List(-1, func(la datamodel.ListAssembler) {
		qp.ListEntry(la, qp.List(-1, func(la datamodel.ListAssembler) {
			qp.ListEntry(la, qp.Bytes(root.Prefix().Bytes()))
			qp.ListEntry(la, qp.Bytes([]byte("some bytes that are not the root block")))
		}))
	})
	hugeLenPrefix := qp.List(-1, func(la datamodel.ListAssembler) {
		qp.ListEntry(la, qp.List(-1, func(la datamodel.ListAssembler) {
			qp.ListEntry(la, qp.Bytes(cid.Prefix{Version: 1, Codec: cid.Raw, MhType: 0x12, MhLength: 1 << 30}.Bytes()))
			qp.ListEntry(la, qp.Bytes([]byte("x")))
		}))
	})
	kinds = append(kinds,
		struct {
			name string
			n    datamodel.Node
		}{"response-unknown-status", respMsg(nil, nil, 99, id)},
		struct {
			name string
			n    datamodel.Node
		}{"response-bad-cid-prefix-block", respMsg(nil, badPrefixBlocks, 14, id)},
		struct {
			name string
			n    datamodel.Node
		}{"response-block-not-matching-any-request", respMsg(nil, okPrefixBlocks, 14, id)},
		struct {
			name string
			n    datamodel.Node
		}{"response-block-huge-digest-length", respMsg(nil, hugeLenPrefix, 14, id)},
		struct {
			name string
			n    datamodel.Node
		}{"response-short-id", respMsg(nil, nil, 20, id[:3])},
		struct {
			name string
			n    datamodel.Node
		}{"response-meta-wrong-kind", respMsg(qp.String("x"), nil, 14, id)},
	)
	k := kinds[r.Intn(len(kinds))]
	return frame(encodeNode(k.n)), "structured:" + k.name
}

// mutate applies byte-level mutations to a valid encoding.
func mutate(r *rand.Rand, in []byte) ([]byte, string) {
	b := append([]byte(nil), in...)
	switch op := r.Intn(14); op {
	case 0:
		for i := 0; i < 1+r.Intn(4) && len(b) > 0; i++ {
			b[r.Intn(len(b))] ^= 1 << uint(r.Intn(8))
		}
		return b, "bit-flips"
	case 1:
		for i := 0; i < 1+r.Intn(4) && len(b) > 0; i++ {
			b[r.Intn(len(b))] = byte(r.Intn(256))
		}
		return b, "byte-replace"
	case 2:
		if len(b) > 1 {
			return b[:r.Intn(len(b))], "truncate"
		}
		return b, "truncate"
	case 3:
		if len(b) > 0 {
			i := r.Intn(len(b))
			ins := make([]byte, 1+r.Intn(8))
			r.Read(ins)
			return append(append(append([]byte{}, b[:i]...), ins...), b[i:]...), "insert-random"
		}
		return b, "insert-random"
	case 4:
		// overlong varint prefix (value unchanged, non-minimal encoding)
		_, n := binary.Uvarint(b)
		if n > 0 {
			v, _ := binary.Uvarint(b)
			pre := []byte{}
			for i := 0; i < 4; i++ {
				pre = append(pre, byte(v&0x7f)|0x80)
				v >>= 7
			}
			pre = append(pre, byte(v&0x7f))
			return append(pre, b[n:]...), "varint-overlong"
		}
		return b, "varint-overlong"
	case 5:
		return append([]byte{0xff, 0xff, 0xff, 0xff, 0xff, 0xff, 0xff, 0xff, 0xff, 0xff, 0x01}, b...), "varint-overflow"
	case 6:
		_, n := binary.Uvarint(b)
		if n > 0 {
			l := make([]byte, binary.MaxVarintLen64)
			m := binary.PutUvarint(l, uint64(5<<20))
			return append(l[:m], b[n:]...), "length-over-4MiB"
		}
		return b, "length-over-4MiB"
	case 7:
		v, n := binary.Uvarint(b)
		if n > 0 {
			l := make([]byte, binary.MaxVarintLen64)
			d := uint64(1 + r.Intn(20))
			if r.Intn(2) == 0 && v > d {
				v -= d
			} else {
				v += d
			}
			m := binary.PutUvarint(l, v)
			return append(l[:m], b[n:]...), "length-not-equal-body"
		}
		return b, "length-not-equal-body"
	case 8:
		// CBOR major type swap
		if len(b) > 2 {
			i := 1 + r.Intn(len(b)-1)
			b[i] = (b[i] & 0x1f) | byte(r.Intn(8))<<5
		}
		return b, "cbor-major-type-swap"
	case 9:
		// indefinite length / tag / reserved additional info
		if len(b) > 2 {
			i := 1 + r.Intn(len(b)-1)
			b[i] = (b[i] & 0xe0) | byte(28+r.Intn(4))
		}
		return b, "cbor-additional-info"
	case 10:
		// huge declared length inside the body
		if len(b) > 10 {
			i := 1 + r.Intn(len(b)-9)
			b[i] = (b[i] & 0xe0) | 27
			for j := 1; j <= 8; j++ {
				b[i+j] = 0x7f
			}
		}
		return b, "cbor-huge-declared-length"
	case 11:
		// deep nesting appended as a second frame
		deep := bytes.Repeat([]byte{0x81}, 2000+r.Intn(100000))
		deep = append(deep, 0x00)
		return append(b, frame(deep)...), "deep-nesting-second-frame"
	case 12:
		// duplicate a slice of the body
		if len(b) > 8 {
			i := r.Intn(len(b) - 4)
			j := i + 1 + r.Intn(len(b)-i-1)
			return append(append(append([]byte{}, b[:j]...), b[i:j]...), b[j:]...), "duplicate-slice"
		}
		return b, "duplicate-slice"
	default:
		// two frames, the second mutated
		second, _ := mutate(r, in)
		return append(b, second...), "valid-then-mutated"
	}
}

// checkDecoded is oracle (c): every block keyed by the CID recomputed from (prefix, bytes), every id 16 bytes.
func checkDecoded(m gsmsg.GraphSyncMessage) string {
	for _, b := range m.Blocks() {
		c, err := b.Cid().Prefix().Sum(b.RawData())
		if err != nil || !c.Equals(b.Cid()) {
			return fmt.Sprintf("decoded block is keyed %s but its bytes hash to %v", b.Cid(), c)
		}
	}
	for _, r := range m.Requests() {
		if len(r.ID().Bytes()) != 16 {
			return fmt.Sprintf("decoded request id has %d bytes", len(r.ID().Bytes()))
		}
	}
	for _, r := range m.Responses() {
		if len(r.RequestID().Bytes()) != 16 {
			return fmt.Sprintf("decoded response id has %d bytes", len(r.RequestID().Bytes()))
		}
	}
	return ""
}

func genHostile(r *rand.Rand, mh *gsmsgv2.MessageHandler, root cid.Cid) ([]byte, string) {
	if r.Intn(4) == 0 {
		return structured(r, root)
	}
	m := GenMsg(r)
	var buf bytes.Buffer
	if err := mh.ToNet(peer.ID("x"), m.M, &buf); err != nil {
		return structured(r, root)
	}
	return mutate(r, buf.Bytes())
}

// refDecode classifies an input the way a stream reader must: number of well-formed frames, then
// clean end (io.EOF) or a malformed frame.
func refDecode(mh *gsmsgv2.MessageHandler, in []byte) (frames int, malformed bool, bad string) {
	reader := msgio.NewVarintReaderSize(bytes.NewReader(in), network.MessageSizeMax)
	for {
		var m gsmsg.GraphSyncMessage
		var err error
		func() {
			defer func() {
				if rec := recover(); rec != nil {
					err = fmt.Errorf("panic: %v", rec)
				}
			}()
			m, err = mh.FromMsgReader(peer.ID("x"), reader)
		}()
		if err == io.EOF {
			return frames, false, bad
		}
		if err != nil {
			return frames, true, bad
		}
		if s := checkDecoded(m); s != "" && bad == "" {
			bad = s
		}
		frames++
	}
}

// TestFuzzDecode: in-process decode fuzz (panics are recovered, as the stream handler does).
func TestFuzzDecode(t *testing.T) {
	p := rt.Load()
	rep := rt.NewReporter(p)
	defer rep.Flush(false)
	mh := gsmsgv2.NewMessageHandler()
	root, _ := randCid(rand.New(rand.NewSource(1)), []byte("root"))
	var decoded, rejected int64
	for _, ci := range p.Cases() {
		r := p.RNG("c12f", ci)
		in, kind := genHostile(r, mh, root)
		if ci%2048 == 0 {
			rep.Journal("case %d kind=%s", ci, kind)
		}
		frames, malformed, bad := refDecode(mh, in)
		rep.Eval()
		if bad != "" {
			rep.Violation(ci, "C12/unverified-content-delivered", bad, map[string]any{"kind": kind, "input_hex": hex.EncodeToString(in[:min(len(in), 4000)])})
		}
		decoded += int64(frames)
		if malformed {
			rejected++
		}
		rep.SetAdd("mutation_kinds", kind)
		rep.Nontrivial(rt.Key(kind, len(in), ci))
		if ci%20000 == 0 {
			rep.Sample(map[string]any{"kind": kind, "frames_decoded": frames, "malformed": malformed, "input_hex": hex.EncodeToString(in[:min(len(in), 120)])})
		}
	}
	rep.Count("frames_decoded", decoded)
	rep.Count("inputs_rejected", rejected)
	rep.Flush(true)
}

// ---------------------------------------------------------------- live node on mocknet

type liveNode struct {
	ctx     context.Context
	cancel  context.CancelFunc
	mn      mocknet.Mocknet
	hA, hB  host.Host
	gs      graphsync.GraphExchange
	dag     *gen.DAG
	recvErr int64
	// canary: responses received by B
	mu    sync.Mutex
	bResp map[graphsync.RequestID][]graphsync.ResponseStatusCode
}

func newLiveNode() (*liveNode, error) {
	ctx, cancel := context.WithCancel(context.Background())
	mn := mocknet.New()
	hA, err := mn.GenPeer()
	if err != nil {
		cancel()
		return nil, err
	}
	hB, err := mn.GenPeer()
	if err != nil {
		cancel()
		return nil, err
	}
	if err := mn.LinkAll(); err != nil {
		cancel()
		return nil, err
	}
	if err := mn.ConnectAllButSelf(); err != nil {
		cancel()
		return nil, err
	}
	ln := &liveNode{ctx: ctx, cancel: cancel, mn: mn, hA: hA, hB: hB, bResp: map[graphsync.RequestID][]graphsync.ResponseStatusCode{}}
	st := store.New("live", &mon.Log{})
	ln.dag = gen.GenDAG(rand.New(rand.NewSource(7)), gen.DagOpts{MinBlocks: 5, MaxBlocks: 8, Salt: "c12-live"})
	for c, b := range ln.dag.Blocks {
		st.Put(c, b)
	}
	// default configuration: only go-graphsync's own default validation
	ln.gs = gsimpl.New(ctx, gsnet.NewFromLibp2pHost(hA), st.LinkSystem())
	ln.gs.RegisterReceiverNetworkErrorListener(func(p peer.ID, err error) { atomic.AddInt64(&ln.recvErr, 1) })
	mh := gsmsgv2.NewMessageHandler()
	hB.SetStreamHandler(gsnet.ProtocolGraphsync_2_0_0, func(s network.Stream) {
		defer s.Close()
		reader := msgio.NewVarintReaderSize(s, network.MessageSizeMax)
		for {
			m, err := mh.FromMsgReader(hA.ID(), reader)
			if err != nil {
				return
			}
			ln.mu.Lock()
			for _, r := range m.Responses() {
				ln.bResp[r.RequestID()] = append(ln.bResp[r.RequestID()], r.Status())
			}
			ln.mu.Unlock()
		}
	})
	return ln, nil
}

// sendRaw writes bytes on a fresh stream, half-closes, and reports how the remote ended the stream.
func (ln *liveNode) sendRaw(in []byte) (reset bool, err error) {
	ctx, cancel := context.WithTimeout(ln.ctx, 20*time.Second)
	defer cancel()
	s, err := ln.hB.NewStream(ctx, ln.hA.ID(), gsnet.ProtocolGraphsync_2_0_0)
	if err != nil {
		return false, err
	}
	_, _ = s.Write(in)
	_ = s.CloseWrite()
	_ = s.SetReadDeadline(time.Now().Add(20 * time.Second))
	buf := make([]byte, 16)
	_, rerr := s.Read(buf)
	_ = s.Close()
	if rerr == io.EOF {
		return false, nil
	}
	if rerr == network.ErrReset {
		return true, nil
	}
	return false, fmt.Errorf("unexpected read result: %v", rerr)
}

// canary sends a valid request on a new stream and waits for a terminal status.
func (ln *liveNode) canary() bool {
	id := graphsync.NewRequestID()
	req := gsmsg.NewRequest(id, ln.dag.Root, gen.AllSelectorDepth(10), 0)
	var buf bytes.Buffer
	if err := gsmsgv2.NewMessageHandler().ToNet(ln.hA.ID(), gsmsg.NewMessage(map[graphsync.RequestID]gsmsg.GraphSyncRequest{id: req}, nil, nil), &buf); err != nil {
		return false
	}
	if _, err := ln.sendRaw(buf.Bytes()); err != nil {
		return false
	}
	deadline := time.Now().Add(30 * time.Second)
	for time.Now().Before(deadline) {
		ln.mu.Lock()
		sts := ln.bResp[id]
		ln.mu.Unlock()
		for _, s := range sts {
			if s == graphsync.RequestCompletedFull {
				return true
			}
			if s.IsTerminal() {
				return false
			}
		}
		time.Sleep(2 * time.Millisecond)
	}
	return false
}

// TestStreamFuzz: hostile bytes on real (mocknet) streams against a live default-configured node.
func TestStreamFuzz(t *testing.T) {
	p := rt.Load()
	rep := rt.NewReporter(p)
	defer rep.Flush(false)
	ln, err := newLiveNode()
	if err != nil {
		rep.Inconclusive("cannot build the mocknet node: %v", err)
		rep.Flush(true)
		return
	}
	defer ln.cancel()
	mh := gsmsgv2.NewMessageHandler()
	if !ln.canary() {
		rep.Inconclusive("canary request failed before any hostile input")
		rep.Flush(true)
		return
	}
	for n, ci := range p.Cases() {
		r := p.RNG("c12s", ci)
		in, kind := genHostile(r, mh, ln.dag.Root)
		if len(in) > 1<<20 {
			in = in[:1<<20]
		}
		// journal BEFORE sending: a dead child identifies its killer
		rep.Journal("case %d kind=%s input_hex=%s", ci, kind, hex.EncodeToString(in[:min(len(in), 3000)]))
		frames, malformed, _ := refDecode(mh, in)
		before := atomic.LoadInt64(&ln.recvErr)
		reset, err := ln.sendRaw(in)
		rep.Eval()
		if err != nil {
			rep.Inconclusive("case %d: %v", ci, err)
			continue
		}
		// the receive error is delivered asynchronously: wait for it (bounded), then make sure no second one follows
		want := int64(0)
		if malformed {
			want = 1
		}
		deadline := time.Now().Add(10 * time.Second)
		for atomic.LoadInt64(&ln.recvErr)-before < want && time.Now().Before(deadline) {
			time.Sleep(time.Millisecond)
		}
		time.Sleep(time.Millisecond)
		got := atomic.LoadInt64(&ln.recvErr) - before
		detail := map[string]any{"kind": kind, "well_formed_frames": frames, "malformed": malformed, "stream_reset_seen": reset, "receive_errors": got, "input_hex": hex.EncodeToString(in[:min(len(in), 4000)])}
		switch {
		case malformed && got != 1:
			rep.Violation(ci, "C12/malformed-without-receive-error", fmt.Sprintf("malformed input (%s): %d receive errors reported, expected exactly 1", kind, got), detail)
		case malformed && !reset:
			rep.Violation(ci, "C12/malformed-without-stream-reset", fmt.Sprintf("malformed input (%s): the stream was not reset", kind), detail)
		case !malformed && got != 0:
			rep.Violation(ci, "C12/receive-error-for-well-formed-input", fmt.Sprintf("well-formed input (%s): %d receive errors", kind, got), detail)
		}
		rep.SetAdd("mutation_kinds", kind)
		rep.Nontrivial(rt.Key(kind, len(in), ci))
		if malformed {
			rep.Count("malformed_inputs", 1)
		} else {
			rep.Count("decodable_inputs", 1)
		}
		if n%25 == 24 || n == len(p.Cases())-1 {
			if !ln.canary() {
				rep.Violation(ci, "C12/node-stopped-serving", "after hostile inputs the node no longer answers a valid request on a new stream", detail)
				break
			}
			rep.Count("canary_requests_served", 1)
		}
		if ci%500 == 0 {
			d := map[string]any{"kind": kind, "well_formed_frames": frames, "malformed": malformed, "input_hex": hex.EncodeToString(in[:min(len(in), 100)])}
			rep.Sample(d)
		}
	}
	rep.Flush(true)
}

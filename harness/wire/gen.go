// Package wire monitors the v2 wire format (C11: round trip of every well-formed message) and the
// stream handler under hostile bytes (C12), the latter against a live default-configured node on
// a libp2p mocknet.
package wire

import (
	"fmt"
	"math"
	"math/rand"

	blocks "github.com/ipfs/go-block-format"
	"github.com/ipfs/go-cid"
	"github.com/ipld/go-ipld-prime/datamodel"
	"github.com/ipld/go-ipld-prime/fluent/qp"
	cidlink "github.com/ipld/go-ipld-prime/linking/cid"
	"github.com/ipld/go-ipld-prime/node/basicnode"
	mh "github.com/multiformats/go-multihash"

	"github.com/ipfs/go-graphsync"
	"github.com/ipfs/go-graphsync/cidset"
	"github.com/ipfs/go-graphsync/dedupkey"
	"github.com/ipfs/go-graphsync/donotsendfirstblocks"
	gsmsg "github.com/ipfs/go-graphsync/message"

	"verif/harness/gen"
)

var allStatuses = []graphsync.ResponseStatusCode{10, 11, 12, 13, 14, 15, 20, 21, 30, 31, 32, 33, 34, 35}
var allActions = []graphsync.LinkAction{graphsync.LinkActionPresent, graphsync.LinkActionDuplicateNotSent, graphsync.LinkActionMissing, graphsync.LinkActionDuplicateDAGSkipped}

type hashSpec struct {
	code uint64
	len  int
	name string
}

var hashCandidates = []hashSpec{
	{mh.SHA2_256, -1, "sha2-256"}, {mh.SHA2_512, -1, "sha2-512"}, {mh.SHA3_256, -1, "sha3-256"}, {mh.SHA3_512, -1, "sha3-512"},
	{mh.BLAKE2B_MIN + 31, -1, "blake2b-256"}, {mh.BLAKE3, -1, "blake3"}, {mh.IDENTITY, -1, "identity"}, {mh.SHA1, -1, "sha1"},
	{mh.SHA2_256, 20, "sha2-256/20"}, {mh.SHA2_512, 32, "sha2-512/32"}, {mh.KECCAK_256, -1, "keccak-256"}, {mh.DBL_SHA2_256, -1, "dbl-sha2-256"},
	{mh.MURMUR3X64_64, -1, "murmur3-x64-64"},
}

var codecs = []uint64{cid.Raw, cid.DagCBOR, cid.DagProtobuf, cid.DagJSON, 0x0129 /* dag-json */, 0x300000 /* arbitrary */, cid.GitRaw}

// usableHashes is filled at init with the hash functions multihash.Sum supports here.
var usableHashes []hashSpec

func init() {
	for _, h := range hashCandidates {
		if _, err := mh.Sum([]byte("probe"), h.code, h.len); err == nil {
			usableHashes = append(usableHashes, h)
		}
	}
}

func randCid(r *rand.Rand, data []byte) (cid.Cid, string) {
	h := usableHashes[r.Intn(len(usableHashes))]
	sum, err := mh.Sum(data, h.code, h.len)
	if err != nil {
		sum, _ = mh.Sum(data, mh.SHA2_256, -1)
		h = usableHashes[0]
	}
	if r.Intn(6) == 0 && h.code == mh.SHA2_256 && h.len == -1 {
		return cid.NewCidV0(sum), "v0/dag-pb/" + h.name
	}
	c := codecs[r.Intn(len(codecs))]
	return cid.NewCidV1(c, sum), fmt.Sprintf("v1/0x%x/%s", c, h.name)
}

func randBytes(r *rand.Rand, n int) []byte {
	b := make([]byte, n)
	r.Read(b)
	return b
}

func randNode(r *rand.Rand, depth int) datamodel.Node {
	switch x := r.Intn(10); {
	case x == 0:
		return datamodel.Null
	case x == 1:
		return basicnode.NewBytes(randBytes(r, r.Intn(40)))
	case x == 2:
		return basicnode.NewString([]string{"", "a", "héllo wörld ✓", "graphsync/x"}[r.Intn(4)])
	case x == 3:
		return basicnode.NewInt([]int64{0, 1, -1, math.MaxInt64, math.MinInt64, 1 << 40}[r.Intn(6)])
	case x == 4:
		return basicnode.NewBool(r.Intn(2) == 0)
	case x == 5:
		c, _ := randCid(r, randBytes(r, 8))
		return basicnode.NewLink(cidlink.Link{Cid: c})
	case x == 6:
		return basicnode.NewFloat(1.5)
	case x < 9 && depth < 3:
		n, _ := qp.BuildMap(basicnode.Prototype.Any, -1, func(ma datamodel.MapAssembler) {
			for i := 0; i < r.Intn(4); i++ {
				qp.MapEntry(ma, fmt.Sprintf("k%d", i), qp.Node(randNode(r, depth+1)))
			}
		})
		return n
	default:
		if depth >= 3 {
			return basicnode.NewInt(7)
		}
		n, _ := qp.BuildList(basicnode.Prototype.Any, -1, func(la datamodel.ListAssembler) {
			for i := 0; i < r.Intn(4); i++ {
				qp.ListEntry(la, qp.Node(randNode(r, depth+1)))
			}
		})
		return n
	}
}

// ExtVal describes a known extension payload that must decode to the value encoded.
type ExtVal struct {
	Name graphsync.ExtensionName
	Cids []cid.Cid
	Skip int64
	Key  string
}

func randExts(r *rand.Rand, known *[]ExtVal) []graphsync.ExtensionData {
	var out []graphsync.ExtensionData
	used := map[graphsync.ExtensionName]bool{}
	for i := 0; i < r.Intn(4); i++ {
		switch r.Intn(6) {
		case 0:
			if used[graphsync.ExtensionDoNotSendCIDs] {
				continue
			}
			used[graphsync.ExtensionDoNotSendCIDs] = true
			set := cid.NewSet()
			var cs []cid.Cid
			for j := 0; j < r.Intn(51); j++ {
				c, _ := randCid(r, randBytes(r, 6))
				if set.Visit(c) {
					cs = append(cs, c)
				}
			}
			out = append(out, graphsync.ExtensionData{Name: graphsync.ExtensionDoNotSendCIDs, Data: cidset.EncodeCidSet(set)})
			*known = append(*known, ExtVal{Name: graphsync.ExtensionDoNotSendCIDs, Cids: cs})
		case 1:
			if used[graphsync.ExtensionsDoNotSendFirstBlocks] {
				continue
			}
			used[graphsync.ExtensionsDoNotSendFirstBlocks] = true
			v := []int64{0, 1, math.MaxInt64, -5, 1 << 33, int64(r.Intn(1000))}[r.Intn(6)]
			out = append(out, graphsync.ExtensionData{Name: graphsync.ExtensionsDoNotSendFirstBlocks, Data: donotsendfirstblocks.EncodeDoNotSendFirstBlocks(v)})
			*known = append(*known, ExtVal{Name: graphsync.ExtensionsDoNotSendFirstBlocks, Skip: v})
		case 2:
			if used[graphsync.ExtensionDeDupByKey] {
				continue
			}
			used[graphsync.ExtensionDeDupByKey] = true
			k := []string{"", "k", "ключ-ünï-✓", string(randBytesASCII(r, 300))}[r.Intn(4)]
			d, _ := dedupkey.EncodeDedupKey(k)
			out = append(out, graphsync.ExtensionData{Name: graphsync.ExtensionDeDupByKey, Data: d})
			*known = append(*known, ExtVal{Name: graphsync.ExtensionDeDupByKey, Key: k})
		case 3:
			n := graphsync.ExtensionName(fmt.Sprintf("verif/nil-%d", i))
			out = append(out, graphsync.ExtensionData{Name: n, Data: nil})
		default:
			n := graphsync.ExtensionName(fmt.Sprintf("verif/ext-%d", i))
			out = append(out, graphsync.ExtensionData{Name: n, Data: randNode(r, 0)})
		}
	}
	return out
}

func randBytesASCII(r *rand.Rand, n int) []byte {
	b := make([]byte, n)
	for i := range b {
		b[i] = byte('a' + r.Intn(26))
	}
	return b
}

// Msg is a generated message plus what is needed to compare it after a round trip.
type Msg struct {
	M        gsmsg.GraphSyncMessage
	Reqs     map[graphsync.RequestID]gsmsg.GraphSyncRequest
	Resps    map[graphsync.RequestID]gsmsg.GraphSyncResponse
	Blocks   map[cid.Cid][]byte
	Known    []ExtVal
	CidKinds []string
}

// GenMsg generates a well-formed message.
func GenMsg(r *rand.Rand) *Msg {
	m := &Msg{Reqs: map[graphsync.RequestID]gsmsg.GraphSyncRequest{}, Resps: map[graphsync.RequestID]gsmsg.GraphSyncResponse{}, Blocks: map[cid.Cid][]byte{}}
	prios := []graphsync.Priority{0, 1, -1, math.MaxInt32, math.MinInt32, 7}
	for i := 0; i < r.Intn(6); i++ {
		id := graphsync.NewRequestID()
		switch r.Intn(4) {
		case 0:
			m.Reqs[id] = gsmsg.NewCancelRequest(id)
		case 1:
			m.Reqs[id] = gsmsg.NewUpdateRequest(id, randExts(r, &m.Known)...)
		default:
			root, kind := randCid(r, randBytes(r, 10))
			m.CidKinds = append(m.CidKinds, kind)
			var sel datamodel.Node
			if r.Intn(2) == 0 {
				sel, _ = gen.DataSelector(r)
			} else {
				sel = gen.GenSelector(r, gen.ShapeOpts(), nil)
			}
			m.Reqs[id] = gsmsg.NewRequest(id, root, sel, prios[r.Intn(len(prios))], randExts(r, &m.Known)...)
		}
	}
	for i := 0; i < r.Intn(6); i++ {
		id := graphsync.NewRequestID()
		var md []gsmsg.GraphSyncLinkMetadatum
		for j := 0; j < r.Intn(51); j++ {
			c, _ := randCid(r, randBytes(r, 5))
			md = append(md, gsmsg.GraphSyncLinkMetadatum{Link: c, Action: allActions[r.Intn(4)]})
		}
		m.Resps[id] = gsmsg.NewResponse(id, allStatuses[r.Intn(len(allStatuses))], md, randExts(r, &m.Known)...)
	}
	bm := map[cid.Cid]blocks.Block{}
	for i := 0; i < r.Intn(21); i++ {
		n := r.Intn(200)
		if r.Intn(8) == 0 {
			n = 0
		}
		data := randBytes(r, n)
		c, kind := randCid(r, data)
		m.CidKinds = append(m.CidKinds, kind)
		b, err := blocks.NewBlockWithCid(data, c)
		if err != nil {
			continue
		}
		bm[c] = b
		m.Blocks[c] = data
	}
	m.M = gsmsg.NewMessage(m.Reqs, m.Resps, bm)
	return m
}

package wire

import (
	"bytes"
	"fmt"
	"io"
	"sort"
	"testing"

	"github.com/ipfs/go-cid"
	"github.com/ipld/go-ipld-prime"
	"github.com/ipld/go-ipld-prime/datamodel"
	"github.com/libp2p/go-libp2p/core/network"
	"github.com/libp2p/go-libp2p/core/peer"
	"github.com/libp2p/go-msgio"

	"github.com/ipfs/go-graphsync"
	"github.com/ipfs/go-graphsync/cidset"
	"github.com/ipfs/go-graphsync/dedupkey"
	"github.com/ipfs/go-graphsync/donotsendfirstblocks"
	gsmsg "github.com/ipfs/go-graphsync/message"
	gsmsgv2 "github.com/ipfs/go-graphsync/message/v2"

	"verif/harness/rt"
)

func nodeEq(a, b datamodel.Node) bool {
	an := a == nil || a.IsNull()
	bn := b == nil || b.IsNull()
	if an || bn {
		return an == bn
	}
	return deepEq(a, b)
}

// deepEq is structural equality of IPLD data; map key order is not significant (dag-cbor orders keys).
func deepEq(a, b datamodel.Node) bool {
	if a.Kind() != b.Kind() {
		return false
	}
	switch a.Kind() {
	case datamodel.Kind_Map:
		if a.Length() != b.Length() {
			return false
		}
		it := a.MapIterator()
		for !it.Done() {
			k, v, err := it.Next()
			if err != nil {
				return false
			}
			ks, _ := k.AsString()
			bv, err := b.LookupByString(ks)
			if err != nil || !deepEq(v, bv) {
				return false
			}
		}
		return true
	case datamodel.Kind_List:
		if a.Length() != b.Length() {
			return false
		}
		for i := int64(0); i < a.Length(); i++ {
			av, _ := a.LookupByIndex(i)
			bv, _ := b.LookupByIndex(i)
			if av == nil || bv == nil || !deepEq(av, bv) {
				return false
			}
		}
		return true
	default:
		return ipld.DeepEqual(a, b)
	}
}

func extsEq(what string, names []graphsync.ExtensionName, get func(graphsync.ExtensionName) (datamodel.Node, bool), names2 []graphsync.ExtensionName, get2 func(graphsync.ExtensionName) (datamodel.Node, bool)) string {
	if len(names) != len(names2) {
		return fmt.Sprintf("%s: %d extensions encoded, %d decoded", what, len(names), len(names2))
	}
	for _, n := range names {
		a, _ := get(n)
		b, ok := get2(n)
		if !ok {
			return fmt.Sprintf("%s: extension %q lost", what, n)
		}
		if !nodeEq(a, b) {
			return fmt.Sprintf("%s: extension %q decoded to a different value", what, n)
		}
	}
	return ""
}

// equivalent decides whether got is equivalent to the generated message want.
func equivalent(want *Msg, got gsmsg.GraphSyncMessage) string {
	gr := got.Requests()
	if len(gr) != len(want.Reqs) {
		return fmt.Sprintf("%d requests encoded, %d decoded", len(want.Reqs), len(gr))
	}
	for _, g := range gr {
		w, ok := want.Reqs[g.ID()]
		if !ok {
			return fmt.Sprintf("decoded request id %s was not encoded", g.ID())
		}
		if g.Type() != w.Type() {
			return fmt.Sprintf("request %s: type %s -> %s", g.ID(), w.Type(), g.Type())
		}
		if w.Type() == graphsync.RequestTypeCancel {
			continue
		}
		if s := extsEq("request "+g.ID().String(), w.ExtensionNames(), w.Extension, g.ExtensionNames(), g.Extension); s != "" {
			return s
		}
		if w.Type() == graphsync.RequestTypeUpdate {
			continue
		}
		if !g.Root().Equals(w.Root()) {
			return fmt.Sprintf("request %s: root %s -> %s", g.ID(), w.Root(), g.Root())
		}
		if g.Priority() != w.Priority() {
			return fmt.Sprintf("request %s: priority %d -> %d", g.ID(), w.Priority(), g.Priority())
		}
		if !nodeEq(w.Selector(), g.Selector()) {
			return fmt.Sprintf("request %s: selector changed", g.ID())
		}
	}
	gs := got.Responses()
	if len(gs) != len(want.Resps) {
		return fmt.Sprintf("%d responses encoded, %d decoded", len(want.Resps), len(gs))
	}
	for _, g := range gs {
		w, ok := want.Resps[g.RequestID()]
		if !ok {
			return fmt.Sprintf("decoded response id %s was not encoded", g.RequestID())
		}
		if g.Status() != w.Status() {
			return fmt.Sprintf("response %s: status %s -> %s", g.RequestID(), w.Status(), g.Status())
		}
		var wm, gm []gsmsg.GraphSyncLinkMetadatum
		w.Metadata().Iterate(func(c cid.Cid, a graphsync.LinkAction) {
			wm = append(wm, gsmsg.GraphSyncLinkMetadatum{Link: c, Action: a})
		})
		g.Metadata().Iterate(func(c cid.Cid, a graphsync.LinkAction) {
			gm = append(gm, gsmsg.GraphSyncLinkMetadatum{Link: c, Action: a})
		})
		if len(wm) != len(gm) {
			return fmt.Sprintf("response %s: %d metadata entries -> %d", g.RequestID(), len(wm), len(gm))
		}
		for i := range wm {
			if !wm[i].Link.Equals(gm[i].Link) || wm[i].Action != gm[i].Action {
				return fmt.Sprintf("response %s: metadata entry #%d (%s,%s) -> (%s,%s)", g.RequestID(), i, wm[i].Link, wm[i].Action, gm[i].Link, gm[i].Action)
			}
		}
		if s := extsEq("response "+g.RequestID().String(), w.ExtensionNames(), w.Extension, g.ExtensionNames(), g.Extension); s != "" {
			return s
		}
	}
	gb := got.Blocks()
	if len(gb) != len(want.Blocks) {
		return fmt.Sprintf("%d blocks encoded, %d decoded", len(want.Blocks), len(gb))
	}
	for _, b := range gb {
		w, ok := want.Blocks[b.Cid()]
		if !ok {
			return fmt.Sprintf("decoded block %s was not encoded (CID changed)", b.Cid())
		}
		if !bytes.Equal(w, b.RawData()) {
			return fmt.Sprintf("block %s: bytes changed", b.Cid())
		}
	}
	return ""
}

// knownExtsOK re-decodes the three known extension payloads after the wire round trip.
func knownExtsOK(want *Msg, got gsmsg.GraphSyncMessage) string {
	find := func(n graphsync.ExtensionName) []datamodel.Node {
		var out []datamodel.Node
		for _, r := range got.Requests() {
			if d, ok := r.Extension(n); ok {
				out = append(out, d)
			}
		}
		for _, r := range got.Responses() {
			if d, ok := r.Extension(n); ok {
				out = append(out, d)
			}
		}
		return out
	}
	for _, k := range want.Known {
		ok := false
		for _, d := range find(k.Name) {
			if d == nil {
				continue
			}
			switch k.Name {
			case graphsync.ExtensionDoNotSendCIDs:
				set, err := cidset.DecodeCidSet(d)
				if err == nil && set.Len() == len(k.Cids) {
					all := true
					for _, c := range k.Cids {
						if !set.Has(c) {
							all = false
						}
					}
					ok = ok || all
				}
			case graphsync.ExtensionsDoNotSendFirstBlocks:
				v, err := donotsendfirstblocks.DecodeDoNotSendFirstBlocks(d)
				ok = ok || (err == nil && v == k.Skip)
			case graphsync.ExtensionDeDupByKey:
				v, err := dedupkey.DecodeDedupKey(d)
				ok = ok || (err == nil && v == k.Key)
			}
		}
		if !ok {
			return fmt.Sprintf("extension %s does not decode to the value encoded (%+v)", k.Name, k)
		}
	}
	return ""
}

func describe(m *Msg) map[string]any {
	var rq, rs []string
	for _, r := range m.Reqs {
		rq = append(rq, r.String())
	}
	for _, r := range m.Resps {
		rs = append(rs, fmt.Sprintf("%s meta=%d", r.String(), r.Metadata().Length()))
	}
	sort.Strings(rq)
	sort.Strings(rs)
	var bl []string
	for c, b := range m.Blocks {
		bl = append(bl, fmt.Sprintf("%s (%d bytes)", c, len(b)))
	}
	sort.Strings(bl)
	return map[string]any{"requests": rq, "responses": rs, "blocks": bl}
}

// TestRoundTrip: FromNet(ToNet(m)) is equivalent to m; k framed messages decode one by one in order, then EOF.
func TestRoundTrip(t *testing.T) {
	p := rt.Load()
	rep := rt.NewReporter(p)
	defer rep.Flush(false)
	mh := gsmsgv2.NewMessageHandler()
	pid := peer.ID("verif-wire-peer")
	for _, h := range usableHashes {
		rep.SetAdd("hash_functions_used", h.name)
	}
	for _, ci := range p.Cases() {
		r := p.RNG("c11", ci)
		k := 1
		if r.Intn(3) == 0 {
			k = 2 + r.Intn(7)
		}
		msgs := make([]*Msg, k)
		var stream bytes.Buffer
		if ci%512 == 0 {
			rep.Journal("case %d", ci)
		}
		bad := false
		for i := range msgs {
			msgs[i] = GenMsg(r)
			var one bytes.Buffer
			if err := mh.ToNet(pid, msgs[i].M, &one); err != nil {
				rep.Violation(ci, "C11/encode-error", fmt.Sprintf("ToNet failed on a well-formed message: %v", err), describe(msgs[i]))
				bad = true
				break
			}
			stream.Write(one.Bytes())
			got, err := mh.FromNet(pid, bytes.NewReader(one.Bytes()))
			if err != nil {
				rep.Violation(ci, "C11/decode-error", fmt.Sprintf("FromNet failed on the encoding of a well-formed message: %v", err), describe(msgs[i]))
				bad = true
				break
			}
			if s := equivalent(msgs[i], got); s != "" {
				rep.Violation(ci, "C11/not-equivalent", s, describe(msgs[i]))
				bad = true
				break
			}
			if s := knownExtsOK(msgs[i], got); s != "" {
				rep.Violation(ci, "C11/extension-codec", s, describe(msgs[i]))
				bad = true
				break
			}
			for _, kd := range msgs[i].CidKinds {
				rep.SetAdd("cid_kinds", kd)
			}
			rep.Count("messages", 1)
			rep.Count("requests", int64(len(msgs[i].Reqs)))
			rep.Count("responses", int64(len(msgs[i].Resps)))
			rep.Count("blocks", int64(len(msgs[i].Blocks)))
		}
		rep.Eval()
		if bad {
			continue
		}
		// the whole stream through one msgio reader, as handleNewStream does
		reader := msgio.NewVarintReaderSize(bytes.NewReader(stream.Bytes()), network.MessageSizeMax)
		for i := range msgs {
			got, err := mh.FromMsgReader(pid, reader)
			if err != nil {
				rep.Violation(ci, "C11/stream-decode-error", fmt.Sprintf("message %d of %d on one stream: %v", i+1, k, err), describe(msgs[i]))
				bad = true
				break
			}
			if s := equivalent(msgs[i], got); s != "" {
				rep.Violation(ci, "C11/stream-not-equivalent", fmt.Sprintf("message %d of %d on one stream: %s", i+1, k, s), describe(msgs[i]))
				bad = true
				break
			}
		}
		if !bad {
			if _, err := mh.FromMsgReader(pid, reader); err != io.EOF {
				rep.Violation(ci, "C11/stream-end", fmt.Sprintf("after %d messages the stream did not end with EOF: %v", k, err), nil)
			}
			if k > 1 {
				rep.Count("multi_message_streams", 1)
			}
		}
		rep.Nontrivial(rt.Key("c11", stream.Len(), ci))
		if ci%2000 == 0 {
			rep.Sample(describe(msgs[0]))
		}
	}
	rep.Flush(true)
}

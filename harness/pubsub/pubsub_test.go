// Package pubsub monitors notifications.Publisher (C18) at its public boundary:
// recording subscribers observe every OnNext/OnClose; single-driver scripts are
// compared with an exact reference model, multi-driver histories with a
// real-time (call/return stamped) mandatory/forbidden-set oracle.
package pubsub

import (
	"fmt"
	"math/rand"
	"runtime"
	"sort"
	"sync"
	"sync/atomic"
	"testing"
	"time"

	"github.com/ipfs/go-graphsync/notifications"
	"github.com/ipfs/go-graphsync/verifhook"

	"verif/harness/rt"
)

type cb struct {
	Close bool
	Topic int
	Ev    int
}

func (c cb) String() string {
	if c.Close {
		return fmt.Sprintf("close(t%d)", c.Topic)
	}
	return fmt.Sprintf("next(t%d,e%d)", c.Topic, c.Ev)
}

type recSub struct {
	id  int
	mu  sync.Mutex
	log []cb
}

func (s *recSub) OnNext(t notifications.Topic, e notifications.Event) {
	s.mu.Lock()
	s.log = append(s.log, cb{false, t.(int), e.(int)})
	s.mu.Unlock()
}
func (s *recSub) OnClose(t notifications.Topic) {
	s.mu.Lock()
	s.log = append(s.log, cb{true, t.(int), 0})
	s.mu.Unlock()
}
func (s *recSub) snapshot() []cb {
	s.mu.Lock()
	defer s.mu.Unlock()
	return append([]cb(nil), s.log...)
}

// waitDrained waits until every queued publisher command has been processed
// (tag-guarded busy counter); false = wall-clock watchdog (inconclusive).
func waitDrained() bool {
	deadline := time.Now().Add(30 * time.Second)
	for i := 0; ; i++ {
		if verifhook.BusyCount() == 0 {
			return true
		}
		if i < 200 {
			runtime.Gosched()
		} else {
			time.Sleep(50 * time.Microsecond)
		}
		if time.Now().After(deadline) {
			return false
		}
	}
}

const (
	oSub = iota
	oUnsub
	oPub
	oClose
	oShutdown
)

type op struct {
	K    int
	T, S int
}

func (o op) String() string {
	switch o.K {
	case oSub:
		return fmt.Sprintf("subscribe(t%d,s%d)", o.T, o.S)
	case oUnsub:
		return fmt.Sprintf("unsubscribe(s%d)", o.S)
	case oPub:
		return fmt.Sprintf("publish(t%d)", o.T)
	case oClose:
		return fmt.Sprintf("close(t%d)", o.T)
	}
	return "shutdown"
}

func fmtOps(ops []op) []string {
	out := make([]string, len(ops))
	for i, o := range ops {
		out[i] = o.String()
	}
	return out
}

// refModel computes, for a single-driver script, the exact expected callback
// list per (subscriber, topic). ok=false when the script subscribes a pair that
// is still live (not defined by the statement; skipped).
func refModel(ops []op, nsubs, ntopics int) (exp map[[2]int][]cb, subRet []bool, ok bool) {
	live := map[[2]int]bool{}
	exp = map[[2]int][]cb{}
	closed := false
	ev := 0
	for _, o := range ops {
		if closed {
			if o.K == oSub || o.K == oUnsub {
				subRet = append(subRet, false)
			}
			if o.K == oPub {
				ev++
			}
			continue
		}
		switch o.K {
		case oSub:
			k := [2]int{o.S, o.T}
			if live[k] {
				return nil, nil, false
			}
			live[k] = true
			subRet = append(subRet, true)
		case oUnsub:
			for t := 0; t < ntopics; t++ {
				k := [2]int{o.S, t}
				if live[k] {
					delete(live, k)
					exp[k] = append(exp[k], cb{true, t, 0})
				}
			}
			subRet = append(subRet, true)
		case oPub:
			for s := 0; s < nsubs; s++ {
				k := [2]int{s, o.T}
				if live[k] {
					exp[k] = append(exp[k], cb{false, o.T, ev})
				}
			}
			ev++
		case oClose:
			for s := 0; s < nsubs; s++ {
				k := [2]int{s, o.T}
				if live[k] {
					delete(live, k)
					exp[k] = append(exp[k], cb{true, o.T, 0})
				}
			}
		case oShutdown:
			for k := range live {
				exp[k] = append(exp[k], cb{true, k[1], 0})
			}
			live = map[[2]int]bool{}
			closed = true
		}
	}
	return exp, subRet, true
}

// runScript executes a script (plus a final Shutdown) on a real publisher.
func runScript(ops []op, nsubs, ntopics int) (got map[[2]int][]cb, rets []bool, perSubNext [][]int, drained bool) {
	ps := notifications.NewPublisher()
	ps.Startup()
	subs := make([]*recSub, nsubs)
	for i := range subs {
		subs[i] = &recSub{id: i}
	}
	ev := 0
	for _, o := range ops {
		switch o.K {
		case oSub:
			rets = append(rets, ps.Subscribe(o.T, subs[o.S]))
		case oUnsub:
			rets = append(rets, ps.Unsubscribe(subs[o.S]))
		case oPub:
			ps.Publish(o.T, ev)
			ev++
		case oClose:
			ps.Close(o.T)
		case oShutdown:
			ps.Shutdown()
		}
	}
	ps.Shutdown()
	drained = waitDrained()
	got = map[[2]int][]cb{}
	perSubNext = make([][]int, nsubs)
	for i, s := range subs {
		for _, c := range s.snapshot() {
			k := [2]int{i, c.Topic}
			got[k] = append(got[k], c)
			if !c.Close {
				perSubNext[i] = append(perSubNext[i], c.Ev)
			}
		}
	}
	return
}

func sameCBs(a, b []cb) bool {
	if len(a) != len(b) {
		return false
	}
	for i := range a {
		if a[i] != b[i] {
			return false
		}
	}
	return true
}

// checkScript runs one script and compares with the model.
func checkScript(rep *rt.Reporter, c int, ops []op, nsubs, ntopics int) (skipped bool) {
	full := append(append([]op(nil), ops...), op{K: oShutdown})
	exp, expRets, ok := refModel(full, nsubs, ntopics)
	if !ok {
		return true
	}
	got, rets, perSubNext, drained := runScript(ops, nsubs, ntopics)
	if !drained {
		rep.Inconclusive("case %d: publisher did not drain within the watchdog: %v", c, fmtOps(ops))
		verifhook.Reset()
		return false
	}
	detail := func() map[string]any {
		g := map[string][]string{}
		e := map[string][]string{}
		for k, v := range got {
			for _, x := range v {
				g[fmt.Sprintf("s%d/t%d", k[0], k[1])] = append(g[fmt.Sprintf("s%d/t%d", k[0], k[1])], x.String())
			}
		}
		for k, v := range exp {
			for _, x := range v {
				e[fmt.Sprintf("s%d/t%d", k[0], k[1])] = append(e[fmt.Sprintf("s%d/t%d", k[0], k[1])], x.String())
			}
		}
		return map[string]any{"ops": fmtOps(ops), "subscribers": nsubs, "topics": ntopics, "observed": g, "expected": e}
	}
	for i := range expRets[:len(rets)] {
		if rets[i] != expRets[i] {
			rep.Violation(c, "C18/return-value", fmt.Sprintf("subscribe/unsubscribe call #%d returned %v, model %v", i, rets[i], expRets[i]), detail())
			return false
		}
	}
	keys := map[[2]int]bool{}
	for k := range got {
		keys[k] = true
	}
	for k := range exp {
		keys[k] = true
	}
	for k := range keys {
		if !sameCBs(got[k], exp[k]) {
			sig := "C18/delivery-mismatch"
			ng, ne := 0, 0
			for _, x := range got[k] {
				if x.Close {
					ng++
				}
			}
			for _, x := range exp[k] {
				if x.Close {
					ne++
				}
			}
			if ng != ne {
				sig = "C18/close-count"
			}
			rep.Violation(c, sig, fmt.Sprintf("subscriber s%d topic t%d: observed %v, expected %v", k[0], k[1], got[k], exp[k]), detail())
			return false
		}
	}
	// publication order across topics for one subscriber (events are numbered in publication order)
	for s, l := range perSubNext {
		if !sort.IntsAreSorted(l) {
			rep.Violation(c, "C18/cross-topic-order", fmt.Sprintf("subscriber s%d saw events out of publication order: %v", s, l), detail())
			return false
		}
	}
	return false
}

// TestExhaustive enumerates all scripts up to a length over 2 topics x 2 subscribers.
// case = (first op, second op); the child enumerates all suffixes (including shorter scripts).
func TestExhaustive(t *testing.T) {
	p := rt.Load()
	rep := rt.NewReporter(p)
	defer rep.Flush(false)
	L := p.Pick(5, 6)
	var alpha []op
	for tt := 0; tt < 2; tt++ {
		for s := 0; s < 2; s++ {
			alpha = append(alpha, op{oSub, tt, s})
		}
	}
	for s := 0; s < 2; s++ {
		alpha = append(alpha, op{oUnsub, 0, s})
	}
	for tt := 0; tt < 2; tt++ {
		alpha = append(alpha, op{oPub, tt, 0}, op{oClose, tt, 0})
	}
	alpha = append(alpha, op{K: oShutdown})
	n := len(alpha)
	var scripts, skipped int64
	for _, c := range p.Cases() {
		rep.Journal("case %d", c)
		pre := []op{alpha[(c/n)%n], alpha[c%n]}
		for l := 2; l <= L; l++ {
			idx := make([]int, l-2)
			for {
				ops := append([]op(nil), pre...)
				for _, v := range idx {
					ops = append(ops, alpha[v])
				}
				if checkScript(rep, c, ops, 2, 2) {
					skipped++
				} else {
					scripts++
				}
				k := len(idx) - 1
				for k >= 0 {
					idx[k]++
					if idx[k] < n {
						break
					}
					idx[k] = 0
					k--
				}
				if k < 0 {
					break
				}
			}
			if rep.NumViolations() > 10 {
				break
			}
		}
		rep.Eval()
		rep.Nontrivial(rt.Key("exh", c))
		if c%37 == 0 {
			rep.Sample(map[string]any{"kind": "exhaustive-prefix", "prefix": fmtOps(pre), "max_length": L, "alphabet": n})
		}
	}
	rep.Count("scripts_executed", scripts)
	rep.Count("scripts_skipped_double_subscription", skipped)
	rep.SetExhaustive(true)
	rep.Flush(true)
}

func randomScript(r *rand.Rand, nsubs, ntopics, n int) []op {
	ops := make([]op, 0, n)
	for len(ops) < n {
		x := r.Intn(100)
		switch {
		case x < 30:
			ops = append(ops, op{oSub, r.Intn(ntopics), r.Intn(nsubs)})
		case x < 40:
			ops = append(ops, op{oUnsub, 0, r.Intn(nsubs)})
		case x < 85:
			ops = append(ops, op{oPub, r.Intn(ntopics), 0})
		case x < 97:
			ops = append(ops, op{oClose, r.Intn(ntopics), 0})
		default:
			ops = append(ops, op{K: oShutdown})
		}
	}
	return ops
}

// TestRandom runs random single-driver scripts (3 topics, 4 subscribers, <= 60 ops).
func TestRandom(t *testing.T) {
	p := rt.Load()
	rep := rt.NewReporter(p)
	defer rep.Flush(false)
	var skipped int64
	for _, c := range p.Cases() {
		r := p.RNG("random", c)
		var ops []op
		// regenerate until the script has no double subscription (bounded tries)
		for try := 0; try < 50; try++ {
			ops = randomScript(r, 4, 3, 5+r.Intn(56))
			// repair: drop subscribes of live pairs
			live := map[[2]int]bool{}
			closed := false
			fixed := ops[:0]
			for _, o := range ops {
				switch o.K {
				case oSub:
					k := [2]int{o.S, o.T}
					if !closed && live[k] {
						continue
					}
					if !closed {
						live[k] = true
					}
				case oUnsub:
					for tt := 0; tt < 3; tt++ {
						delete(live, [2]int{o.S, tt})
					}
				case oClose:
					for s := 0; s < 4; s++ {
						delete(live, [2]int{s, o.T})
					}
				case oShutdown:
					closed = true
				}
				fixed = append(fixed, o)
			}
			ops = fixed
			break
		}
		rep.Journal("case %d %v", c, fmtOps(ops))
		if checkScript(rep, c, ops, 4, 3) {
			skipped++
			continue
		}
		rep.Eval()
		rep.Nontrivial(rt.Key("random", fmt.Sprint(ops)))
		if c%1000 == 0 {
			rep.Sample(map[string]any{"kind": "random-script", "ops": fmtOps(ops)})
		}
	}
	rep.Count("scripts_skipped_double_subscription", skipped)
	rep.Flush(true)
}

// ---------------- concurrent drivers ----------------

type callRec struct {
	Driver   int
	K        int
	T, S, Ev int
	Call     int64
	Ret      int64
	OK       bool
}

// TestConcurrent: four drivers, each owning one subscriber; any driver may
// publish/close any topic; one driver may shut the publisher down.
func TestConcurrent(t *testing.T) {
	p := rt.Load()
	rep := rt.NewReporter(p)
	defer rep.Flush(false)
	const ndrivers, ntopics = 4, 3
	for _, c := range p.Cases() {
		r := p.RNG("conc", c)
		ps := notifications.NewPublisher()
		ps.Startup()
		subs := make([]*recSub, ndrivers)
		for i := range subs {
			subs[i] = &recSub{id: i}
		}
		var clock int64
		now := func() int64 { return atomic.AddInt64(&clock, 1) }
		var evCtr int64
		var mu sync.Mutex
		var calls []callRec
		seeds := make([]int64, ndrivers)
		for i := range seeds {
			seeds[i] = r.Int63()
		}
		nops := 5 + r.Intn(20)
		shutdownDriver := -1
		if r.Intn(3) == 0 {
			shutdownDriver = r.Intn(ndrivers)
		}
		rep.Journal("case %d nops=%d", c, nops)
		var wg sync.WaitGroup
		for d := 0; d < ndrivers; d++ {
			wg.Add(1)
			go func(d int) {
				defer wg.Done()
				lr := rand.New(rand.NewSource(seeds[d]))
				believedLive := map[int]bool{}
				for i := 0; i < nops; i++ {
					if lr.Intn(4) == 0 {
						runtime.Gosched()
					}
					x := lr.Intn(100)
					rec := callRec{Driver: d}
					switch {
					case x < 25:
						tt := lr.Intn(ntopics)
						if believedLive[tt] {
							continue
						}
						rec.K, rec.T, rec.S = oSub, tt, d
						rec.Call = now()
						rec.OK = ps.Subscribe(tt, subs[d])
						rec.Ret = now()
						if rec.OK {
							believedLive[tt] = true
						}
					case x < 35:
						rec.K, rec.S = oUnsub, d
						rec.Call = now()
						rec.OK = ps.Unsubscribe(subs[d])
						rec.Ret = now()
						believedLive = map[int]bool{}
					case x < 88:
						rec.K, rec.T = oPub, lr.Intn(ntopics)
						rec.Ev = int(atomic.AddInt64(&evCtr, 1))
						rec.Call = now()
						ps.Publish(rec.T, rec.Ev)
						rec.Ret = now()
					case x < 97:
						rec.K, rec.T = oClose, lr.Intn(ntopics)
						rec.Call = now()
						ps.Close(rec.T)
						rec.Ret = now()
					default:
						if d != shutdownDriver {
							continue
						}
						rec.K = oShutdown
						rec.Call = now()
						ps.Shutdown()
						rec.Ret = now()
					}
					mu.Lock()
					calls = append(calls, rec)
					mu.Unlock()
				}
			}(d)
		}
		wg.Wait()
		fin := callRec{Driver: -1, K: oShutdown, Call: now()}
		ps.Shutdown()
		fin.Ret = now()
		calls = append(calls, fin)
		rep.Eval()
		if !waitDrained() {
			rep.Inconclusive("case %d: publisher did not drain within the watchdog", c)
			verifhook.Reset()
			continue
		}
		if msg := checkConcurrent(calls, subs, ntopics); msg != "" {
			var h []string
			for _, cr := range calls {
				h = append(h, fmt.Sprintf("d%d [%d,%d] %v ev=%d ok=%v", cr.Driver, cr.Call, cr.Ret, op{cr.K, cr.T, cr.S}, cr.Ev, cr.OK))
			}
			obs := map[string][]string{}
			for i, s := range subs {
				for _, x := range s.snapshot() {
					obs[fmt.Sprintf("s%d", i)] = append(obs[fmt.Sprintf("s%d", i)], x.String())
				}
			}
			rep.Violation(c, "C18/concurrent-"+msg[:indexOf(msg, ':')], msg, map[string]any{"calls": h, "observed": obs})
		}
		rep.Nontrivial(rt.Key("conc", c, len(calls)))
		rep.Count("concurrent_calls", int64(len(calls)))
		if c%300 == 0 {
			rep.Sample(map[string]any{"kind": "concurrent-history", "drivers": ndrivers, "calls": len(calls)})
		}
	}
	rep.Flush(true)
}

func indexOf(s string, b byte) int {
	for i := 0; i < len(s); i++ {
		if s[i] == b {
			return i
		}
	}
	return len(s)
}

// checkConcurrent decides a concurrent history. Returns "" or "<kind>: description".
func checkConcurrent(calls []callRec, subs []*recSub, ntopics int) string {
	pubs := map[int]callRec{}
	for _, c := range calls {
		if c.K == oPub {
			pubs[c.Ev] = c
		}
	}
	// global per-topic order consistency between subscribers
	type pair struct{ a, b int }
	orderSeen := map[int]map[pair]bool{}
	for s, sub := range subs {
		log := sub.snapshot()
		for tt := 0; tt < ntopics; tt++ {
			// successful subscribe calls of (s,tt) in real-time order (same driver => ordered)
			var insts []callRec
			for _, c := range calls {
				if c.K == oSub && c.S == s && c.T == tt && c.OK {
					insts = append(insts, c)
				}
			}
			sort.Slice(insts, func(i, j int) bool { return insts[i].Call < insts[j].Call })
			// split observed log of (s,tt) into segments ended by OnClose
			var segs [][]int
			cur := []int{}
			open := false
			nclose := 0
			for _, x := range log {
				if x.Topic != tt {
					continue
				}
				if x.Close {
					segs = append(segs, cur)
					cur = []int{}
					open = false
					nclose++
				} else {
					cur = append(cur, x.Ev)
					open = true
				}
			}
			if open || len(cur) > 0 {
				return fmt.Sprintf("after-close: subscriber s%d topic t%d received %v after its last OnClose (or without a final OnClose)", s, tt, cur)
			}
			if nclose != len(insts) {
				return fmt.Sprintf("close-count: subscriber s%d topic t%d: %d successful subscriptions but %d OnClose calls", s, tt, len(insts), nclose)
			}
			for k, inst := range insts {
				seg := segs[k]
				// earliest possible end and guaranteed end
				endStartMin := int64(1 << 62) // earliest call stamp of any op that may have ended the instance
				endRetMin := int64(1 << 62)   // earliest return stamp of an op certainly queued after the subscription
				for _, c := range calls {
					ends := false
					switch c.K {
					case oUnsub:
						ends = c.S == s
					case oClose:
						ends = c.T == tt
					case oShutdown:
						ends = true
					}
					if !ends || c.Ret < inst.Call {
						continue
					}
					if c.Call < endStartMin {
						endStartMin = c.Call
					}
					if c.Call > inst.Ret && c.Ret < endRetMin {
						endRetMin = c.Ret
					}
				}
				seen := map[int]bool{}
				lastByDriver := map[int]int64{}
				for _, ev := range seg {
					pc, ok := pubs[ev]
					if !ok || pc.T != tt {
						return fmt.Sprintf("phantom: subscriber s%d topic t%d received event e%d never published on that topic", s, tt, ev)
					}
					if seen[ev] {
						return fmt.Sprintf("duplicate: subscriber s%d topic t%d received event e%d twice", s, tt, ev)
					}
					seen[ev] = true
					if pc.Ret < inst.Call {
						return fmt.Sprintf("before-subscribe: subscriber s%d topic t%d (subscription #%d) received e%d whose publish returned before the subscribe call", s, tt, k, ev)
					}
					if pc.Call > endRetMin {
						return fmt.Sprintf("after-end: subscriber s%d topic t%d (subscription #%d) received e%d published after the subscription had ended", s, tt, k, ev)
					}
					if last, ok := lastByDriver[pc.Driver]; ok && pc.Call < last {
						return fmt.Sprintf("order: subscriber s%d topic t%d received events of driver %d out of program order", s, tt, pc.Driver)
					}
					lastByDriver[pc.Driver] = pc.Call
				}
				// real-time order: if pub a returned before pub b was called, a must precede b
				for i := 0; i < len(seg); i++ {
					for j := i + 1; j < len(seg); j++ {
						if pubs[seg[j]].Ret < pubs[seg[i]].Call {
							return fmt.Sprintf("order: subscriber s%d topic t%d received e%d before e%d although e%d was published strictly earlier", s, tt, seg[i], seg[j], seg[j])
						}
						if orderSeen[tt] == nil {
							orderSeen[tt] = map[pair]bool{}
						}
						if orderSeen[tt][pair{seg[j], seg[i]}] {
							return fmt.Sprintf("order: two subscribers of topic t%d saw e%d and e%d in different orders", tt, seg[i], seg[j])
						}
						orderSeen[tt][pair{seg[i], seg[j]}] = true
					}
				}
				// mandatory deliveries
				for ev, pc := range pubs {
					if pc.T == tt && pc.Call > inst.Ret && pc.Ret < endStartMin && !seen[ev] {
						return fmt.Sprintf("lost: subscriber s%d topic t%d (subscription #%d, subscribed by stamp %d) never received e%d published in [%d,%d] before any ending call (earliest %d)", s, tt, k, inst.Ret, ev, pc.Call, pc.Ret, endStartMin)
					}
				}
			}
		}
	}
	return ""
}

// Package taskq monitors the worker task queue directly (C21): an instrumented Executor is the
// boundary at which concurrency is counted; task durations are gates the script opens.
package taskq

import (
	"context"
	"fmt"
	"sync"
	"sync/atomic"
	"testing"
	"time"

	"github.com/ipfs/go-peertaskqueue"
	"github.com/ipfs/go-peertaskqueue/peertask"
	"github.com/ipfs/go-peertaskqueue/peertracker"
	"github.com/libp2p/go-libp2p/core/peer"

	"github.com/ipfs/go-graphsync/taskqueue"
	"github.com/ipfs/go-graphsync/verifhook"

	"verif/harness/rt"
)

type task struct {
	topic    int
	peer     int
	gated    bool
	gate     chan struct{}
	pushedAt int64 // completions counted when it was pushed
	starts   int32
	removed  int32
	released bool
	done     int32
}

type exec struct {
	mu          sync.Mutex
	tq          *taskqueue.WorkerTaskQueue
	tasks       map[int]*task
	running     int
	perPeer     map[peer.ID]int
	maxRunning  int
	maxPerPeer  int
	completions int64
	viol        string
	W, P        int
}

func (e *exec) ExecuteTask(ctx context.Context, pid peer.ID, t *peertask.Task) bool {
	e.mu.Lock()
	tk := e.tasks[t.Topic.(int)]
	e.running++
	e.perPeer[pid]++
	if e.running > e.maxRunning {
		e.maxRunning = e.running
	}
	if e.perPeer[pid] > e.maxPerPeer {
		e.maxPerPeer = e.perPeer[pid]
	}
	if e.running > e.W && e.viol == "" {
		e.viol = fmt.Sprintf("limit|%d tasks are executing at once with %d workers", e.running, e.W)
	}
	if e.P > 0 && e.perPeer[pid] > e.P && e.viol == "" {
		e.viol = fmt.Sprintf("perpeer|%d tasks of one peer are executing at once, per-peer limit %d", e.perPeer[pid], e.P)
	}
	if atomic.AddInt32(&tk.starts, 1) > 1 && e.viol == "" {
		e.viol = fmt.Sprintf("twice|task %d was executed twice", tk.topic)
	}
	if atomic.LoadInt32(&tk.removed) == 1 && e.viol == "" {
		e.viol = fmt.Sprintf("removed|task %d was executed after it had been removed while pending", tk.topic)
	}
	e.mu.Unlock()
	if tk.gated {
		select {
		case <-tk.gate:
		case <-ctx.Done():
		}
	}
	// the managers report completion to the queue before the executor returns: the peer's slot is
	// free from that report on, the worker only when ExecuteTask returns
	e.mu.Lock()
	e.perPeer[pid]--
	e.mu.Unlock()
	e.tq.TaskDone(pid, t)
	e.mu.Lock()
	e.running--
	e.completions++
	e.mu.Unlock()
	atomic.StoreInt32(&tk.done, 1)
	return false
}

// TestC21Queue drives the real WorkerTaskQueue with generated arrival patterns.
func TestC21Queue(t *testing.T) {
	p := rt.Load()
	rep := rt.NewReporter(p)
	defer rep.Flush(false)
	var ticks int64
	verifhook.SetEventSink(func(point string, kv ...any) {
		if point == "tq.tick" {
			atomic.AddInt64(&ticks, 1)
		}
	})
	for _, ci := range p.Cases() {
		r := p.RNG("c21q", ci)
		W := []int{1, 2, 3, 6}[r.Intn(4)]
		P := 0
		if r.Intn(2) == 0 {
			P = 1 + r.Intn(2)
		}
		nPeers := 2 + r.Intn(5)
		peers := make([]peer.ID, nPeers)
		for i := range peers {
			peers[i] = peer.ID(fmt.Sprintf("verif-peer-%d", i))
		}
		ctx, cancel := context.WithCancel(context.Background())
		var opts []peertaskqueue.Option
		if P > 0 {
			opts = append(opts, peertaskqueue.MaxOutstandingWorkPerPeer(P)) // as impl.New does for the response queue
		}
		tq := taskqueue.NewTaskQueue(ctx, opts...)
		e := &exec{tq: tq, tasks: map[int]*task{}, perPeer: map[peer.ID]int{}, W: W, P: P}
		var trace []string
		var all []*task
		push := func(pi int, gated bool) {
			tk := &task{topic: len(all), peer: pi, gated: gated, gate: make(chan struct{})}
			e.mu.Lock()
			e.tasks[tk.topic] = tk
			tk.pushedAt = e.completions
			e.mu.Unlock()
			all = append(all, tk)
			tq.PushTask(peers[pi], peertask.Task{Topic: tk.topic, Priority: r.Intn(5), Work: 1})
		}
		// settle waits until the queue has nothing more to start: every worker is parked in a gate or
		// there is no eligible pending task. Bounded by ticker rounds (logical), watchdog only for a dead queue.
		viol, vsig, inc := "", "", ""
		settle := func(label string) {
			t0 := atomic.LoadInt64(&ticks)
			wall := time.Now()
			for {
				e.mu.Lock()
				running := e.running
				pp := map[peer.ID]int{}
				for k, v := range e.perPeer {
					pp[k] = v
				}
				ev := e.viol
				e.mu.Unlock()
				if ev != "" {
					return
				}
				waiting := -1
				for _, tk := range all {
					if atomic.LoadInt32(&tk.starts) == 0 && atomic.LoadInt32(&tk.removed) == 0 && (P == 0 || pp[peers[tk.peer]] < P) {
						waiting = tk.topic
						break
					}
				}
				if waiting < 0 || running >= W {
					return
				}
				// an eligible task is waiting beside a free worker: fine while wake-ups and thaw rounds are
				// still due, a violation once many ticker rounds have gone by
				if atomic.LoadInt64(&ticks)-t0 >= 40 {
					viol = fmt.Sprintf("%s: task %d of peer %d is still waiting after 40 ticker rounds although %d of %d workers are busy and the peer runs %d (limit %d)", label, waiting, all[waiting].peer, running, W, pp[peers[all[waiting].peer]], P)
					vsig = "C21/queued-task-not-run"
					return
				}
				if time.Since(wall) > 30*time.Second {
					inc = label + ": fewer than 40 ticker rounds in 30 s while a task is waiting (no periodic wake-up observed)"
					return
				}
				time.Sleep(2 * time.Millisecond)
			}
		}
		tq.Startup(uint64(W), e)
		flooder := r.Intn(nPeers)
		nsteps := 15 + r.Intn(40)
		for s := 0; s < nsteps && viol == "" && inc == ""; s++ {
			op := ""
			switch x := r.Intn(20); {
			case x < 8:
				pi := r.Intn(nPeers)
				if r.Intn(2) == 0 {
					pi = flooder
				}
				n := 1 + r.Intn(4)
				for i := 0; i < n; i++ {
					push(pi, r.Intn(4) > 0)
				}
				op = fmt.Sprintf("push(peer %d x%d)", pi, n)
			case x < 15:
				var c []*task
				for _, tk := range all {
					if tk.gated && !tk.released && atomic.LoadInt32(&tk.starts) > 0 {
						c = append(c, tk)
					}
				}
				if len(c) > 0 {
					tk := c[r.Intn(len(c))]
					tk.released = true
					close(tk.gate)
					op = fmt.Sprintf("release(%d)", tk.topic)
				}
			default:
				var c []*task
				for _, tk := range all {
					if atomic.LoadInt32(&tk.starts) == 0 && atomic.LoadInt32(&tk.removed) == 0 {
						c = append(c, tk)
					}
				}
				if len(c) > 0 {
					tk := c[r.Intn(len(c))]
					// Remove only takes pending tasks; a task a worker has just popped still runs
					tq.Remove(tk.topic, peers[tk.peer])
					st := false
					tq.WithPeerTopics(peers[tk.peer], func(pt *peertracker.PeerTrackerTopics) {
						if pt != nil {
							for _, a := range pt.Active {
								if a == tk.topic {
									st = true
								}
							}
						}
					})
					if !st && atomic.LoadInt32(&tk.starts) == 0 {
						atomic.StoreInt32(&tk.removed, 1)
					}
					op = fmt.Sprintf("remove(%d)", tk.topic)
				}
			}
			if op == "" {
				continue
			}
			trace = append(trace, op)
			settle(fmt.Sprintf("after step %d (%s)", s, op))
		}
		// drain
		for viol == "" && inc == "" {
			var c []*task
			for _, tk := range all {
				if tk.gated && !tk.released && atomic.LoadInt32(&tk.removed) == 0 {
					c = append(c, tk)
				}
			}
			if len(c) == 0 {
				break
			}
			// release started ones first, then the rest (their gates are open when they start)
			var started []*task
			for _, tk := range c {
				if atomic.LoadInt32(&tk.starts) > 0 {
					started = append(started, tk)
				}
			}
			if len(started) > 0 {
				c = started
			}
			tk := c[r.Intn(len(c))]
			tk.released = true
			close(tk.gate)
			settle(fmt.Sprintf("drain after release(%d)", tk.topic))
		}
		e.mu.Lock()
		if e.viol != "" && viol == "" {
			viol = e.viol
		}
		maxR, maxPP, comps := e.maxRunning, e.maxPerPeer, e.completions
		e.mu.Unlock()
		if viol == "" && inc == "" {
			// bounded progress: everything that was pushed and not removed has run exactly once
			deadline := time.Now().Add(30 * time.Second)
			for _, tk := range all {
				for atomic.LoadInt32(&tk.removed) == 0 && atomic.LoadInt32(&tk.done) == 0 {
					if time.Now().After(deadline) {
						inc = fmt.Sprintf("task %d did not finish within the watchdog after the drain", tk.topic)
						break
					}
					time.Sleep(time.Millisecond)
				}
			}
			st := tq.Stats()
			if inc == "" && (st.Active != 0 || st.Pending != 0) {
				// removed-but-raced tasks may legitimately still be pending? no: removed tasks left the queue
				viol, vsig = fmt.Sprintf("after the drain the queue reports active=%d pending=%d", st.Active, st.Pending), "C21/queue-not-empty-after-drain"
			}
		}
		cancel()
		rep.Eval()
		detail := map[string]any{"case": ci, "workers": W, "per_peer_limit": P, "peers": nPeers, "tasks": len(all), "history": trace, "max_running": maxR, "max_running_one_peer": maxPP, "completions": comps}
		switch {
		case inc != "":
			rep.Inconclusive("case %d: %s", ci, inc)
		case viol != "":
			if vsig == "" {
				k := indexByte(viol, '|')
				vsig = map[string]string{"limit": "C21/worker-limit-exceeded", "perpeer": "C21/per-peer-limit-exceeded", "twice": "C21/task-executed-twice", "removed": "C21/removed-task-executed"}[viol[:k]]
				viol = viol[k+1:]
			}
			rep.Violation(ci, vsig, viol, detail)
		default:
			rep.Nontrivial(rt.Key("c21q", W, P, nPeers, len(all), len(trace), ci))
			rep.Count("tasks_executed", comps)
			rep.Count("tasks_pushed", int64(len(all)))
			if maxR == W {
				rep.Count("cases_reaching_worker_limit", 1)
			}
			if P > 0 && maxPP == P {
				rep.Count("cases_reaching_per_peer_limit", 1)
			}
		}
		if ci%97 == 0 {
			rep.Sample(detail)
		}
	}
	rep.Count("ticker_rounds_observed", atomic.LoadInt64(&ticks))
	rep.Flush(true)
}

func indexByte(s string, c byte) int {
	for i := 0; i < len(s); i++ {
		if s[i] == c {
			return i
		}
	}
	return 0
}

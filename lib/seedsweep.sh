#!/bin/bash
# Runs every seeded change against the quick check of its own property (plus sibling checks where the change is
# filed under one property but another owns the mechanism), one after the other. Output: /verif/.work/seedsweep.log
cd /verif
declare -A EXTRA=( [C20-b]="C15" [C06-a]="C03" [C20-c]="C03" [C20-d]="C03 C24" [C20-a]="C19 C03" [C15-a]="" [C09-a]="" [C10-a]="" [C10-b]="" )
# usage: seedsweep.sh [seed-id ...]   (default: all); appends to .work/seedsweep.log
LIST="$@"; [ -n "$LIST" ] || LIST=$(ls seeded | grep '^C')
for id in $LIST; do
  p=${id%%-*}
  lib/seedrun.sh $id $p ${EXTRA[$id]} 2>&1 | cut -c1-400 >> .work/seedsweep.log
done
echo DONE >> .work/seedsweep.log

#!/bin/bash
# usage: confirm_port.sh <seed-id>  : confirms a ported seeded change against current /repo HEAD in a scratch worktree:
# demo passes without it, fails with it, the repository's own tests of the touched packages pass with it.
export PATH=/root/go/pkg/mod/golang.org/toolchain@v0.0.1-go1.25.7.linux-amd64/bin:$PATH GOTOOLCHAIN=local GOFLAGS=-mod=mod GOPROXY=off GOSUMDB=off
ID=$1; WT=/tmp/port-wt-$ID; SD=/verif/seeded/$ID
git -C /repo worktree remove --force $WT 2>/dev/null; git -C /repo worktree add -q --detach $WT HEAD || exit 9
DIR=$(python3 -c "import json;print(json.load(open('$SD/meta.confirm.json'))['demo_dir'])")
cp $SD/demo_test.go $WT/$DIR/zz_seeded_demo_test.go
cd $WT
go test -vet=off -count=1 -run 'TestSeeded' ./$DIR > /tmp/port-$ID.base.log 2>&1; BASE=$?
git apply $SD/patch.diff || { echo "$ID: patch does not apply"; git -C /repo worktree remove --force $WT; exit 3; }
go test -vet=off -count=1 -run 'TestSeeded' ./$DIR > /tmp/port-$ID.mut.log 2>&1; MUT=$?
rm $WT/$DIR/zz_seeded_demo_test.go
go test -vet=off -count=1 ./... > /tmp/port-$ID.suite.log 2>&1; SUITE=$?
if [ $SUITE != 0 ]; then
  PK=$(grep '^FAIL\s' /tmp/port-$ID.suite.log | awk '{print $2}' | sed 's#github.com/ipfs/go-graphsync#.#')
  [ -n "$PK" ] && { go test -vet=off -count=1 $PK > /tmp/port-$ID.suite2.log 2>&1; SUITE=$?; }
fi
echo "$ID: demo_unmodified_rc=$BASE demo_with_change_rc=$MUT suite_with_change_rc=$SUITE"
cd /; git -C /repo worktree remove --force $WT
rm -f /tmp/port-$ID.*.log

#!/usr/bin/env python3
"""Regenerates /verif/MANIFEST.json from lib/props.py (single source of truth)."""
import json
import os
import sys

ROOT = os.path.dirname(os.path.dirname(os.path.abspath(__file__)))
sys.path.insert(0, os.path.join(ROOT, "lib"))
from props import PROPS  # noqa: E402

GOBIN = "/root/go/pkg/mod/golang.org/toolchain@v0.0.1-go1.25.7.linux-amd64/bin"
ENV = "export PATH=%s:$PATH GOTOOLCHAIN=local GOFLAGS=-mod=mod GOPROXY=off GOSUMDB=off" % GOBIN

all_ids = []
with open(os.path.join(ROOT, "properties.jsonl")) as f:
    for line in f:
        if line.strip():
            all_ids.append(json.loads(line)["id"])

checks = []
for pid in sorted(PROPS):
    s = PROPS[pid]
    if s.get("unclaimed"):
        continue
    checks.append(dict(
        property_id=pid,
        quick_cmd="./check %s quick" % pid,
        thorough_cmd="./check %s thorough" % pid,
        evidence_file="/verif/evidence/%s.json" % pid,
        replay_cmd_template="./check %s --replay {path}" % pid,
        engine=",".join(sorted({st["pkg"] for st in s["stages"]})),
        level_claimed=dict(category=s["level"], text=s["level_text"], design_ref=s.get("design_ref", "DESIGN.md section 6, " + pid)),
        level_note=s["level_note"],
        technique=s["technique"],
    ))

not_app = []
for pid in all_ids:
    if pid not in PROPS or PROPS[pid].get("unclaimed"):
        reason = (PROPS.get(pid) or {}).get("unclaimed") or "runtime-monitoring check designed (DESIGN.md section 6) but not built yet; not claimed"
        not_app.append(dict(property_id=pid, reason=reason))

engines = {}
for pid, s in PROPS.items():
    if s.get("unclaimed"):
        continue
    for st in s["stages"]:
        engines.setdefault(st["pkg"], set()).add(pid)

man = dict(
    version=1,
    setup_cmd="%s; cd /verif/harness && go build ./... && go vet -tags verif ./rt >/dev/null; cd /verif && ./lib/prebuild.sh" % ENV,
    hooks=dict(
        guard="verif",
        enable="go build tag: every harness binary is built with `go test -c -tags verif` (module /verif/harness has `replace github.com/ipfs/go-graphsync => /repo`, so /repo's working tree is what gets compiled)",
        baseline_off_cmd="%s; cd /repo && go test -json -vet=off -count=1 -timeout 25m ./... ; cd /repo/testplans/graphsync && go test -json -vet=off -count=1 -timeout 25m ./..." % ENV,
        source_commits=json.load(open(os.path.join(ROOT, "lib", "hook_commits.json"))),
        add_only=True,
    ),
    engines=[dict(name=k, path="/verif/harness/" + k, serves_properties=sorted(v), kind_free_text="Go test binary (race detector on unless stated) run as isolated child processes by ./check") for k, v in sorted(engines.items())],
    checks=checks,
    not_applicable=not_app,
    notes="All checks are runtime monitors over executions of the real code (see DESIGN.md). exit 0 held / 1 violation / 2 inconclusive. known_findings.json lists recorded genuine defects.",
)
json.dump(man, open(os.path.join(ROOT, "MANIFEST.json"), "w"), indent=1)
print("wrote MANIFEST.json: %d checks, %d not claimed" % (len(checks), len(not_app)))

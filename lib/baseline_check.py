#!/usr/bin/env python3
"""Runs the repository's own suite with the verif tag OFF (as MANIFEST.hooks.baseline_off_cmd does) and
compares the per-test results with /root/.vp/BASELINE.json stable_pass. usage: baseline_check.py [runs]"""
import json, os, subprocess, sys
ENV = dict(os.environ, PATH="/root/go/pkg/mod/golang.org/toolchain@v0.0.1-go1.25.7.linux-amd64/bin:" + os.environ["PATH"],
           GOTOOLCHAIN="local", GOFLAGS="-mod=mod", GOPROXY="off", GOSUMDB="off")
base = json.load(open("/root/.vp/BASELINE.json"))
stable = set(base["stable_pass"])
runs = int(sys.argv[1]) if len(sys.argv) > 1 else 1
bad_total = {}
for r in range(runs):
    res = {}
    for d in ("/repo", "/repo/testplans/graphsync"):
        p = subprocess.run(["go", "test", "-json", "-vet=off", "-count=1", "-timeout", "25m", "./..."], cwd=d, env=ENV, capture_output=True, text=True)
        for line in p.stdout.splitlines():
            try:
                e = json.loads(line)
            except ValueError:
                continue
            if e.get("Test") and e.get("Action") in ("pass", "fail", "skip"):
                res[e["Package"] + "::" + e["Test"]] = e["Action"]
    missing = [t for t in stable if res.get(t) != "pass"]
    print("run %d: %d tests seen, %d of %d stable_pass tests passed; not passing: %s" % (r + 1, len(res), len(stable) - len(missing), len(stable), missing[:10]))
    for t in missing:
        bad_total[t] = bad_total.get(t, 0) + 1
print("SUMMARY", json.dumps(bad_total))
sys.exit(1 if bad_total else 0)

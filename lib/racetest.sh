#!/bin/bash
# usage: racetest.sh <binary> <ncases> <Prop:TestName> ...   runs each test under the race detector on a few cases, in parallel, and reports race counts
BIN=$1; N=$2; shift 2
for PT in "$@"; do
  P=${PT%%:*}; T=${PT##*:}
  D=/verif/.work/r/$P.$T; mkdir -p $D; rm -f $D/race.* $D/result* 
  (cd $D; GORACE="halt_on_error=0 log_path=$D/race" VERIF_PROP=$P VERIF_CASE_FROM=0 VERIF_CASE_TO=$N VERIF_OUT=$D GOLOG_LOG_LEVEL=fatal $BIN -test.run "^$T\$" -test.timeout 0 > out.log 2>&1) &
done
wait
for PT in "$@"; do
  P=${PT%%:*}; T=${PT##*:}; D=/verif/.work/r/$P.$T
  echo "$PT races=$(cat $D/race.* 2>/dev/null | grep -c 'WARNING: DATA RACE') $(tail -1 $D/out.log | cut -c1-60) | $(/verif/lib/summ.py $D/result.$P.0.json 2>/dev/null | sed -n '1p;3p' | tr '\n' ' ' | cut -c1-200)"
done

#!/bin/bash
# usage: seedrun.sh <seeded-id e.g. C19-a> [check-prop ...]
# Builds the checks against a scratch worktree of /repo HEAD with the seeded patch applied (never touches /repo
# itself or the evidence files), runs the quick checks, removes the worktree.
ID=$1; shift
P=${ID%%-*}
[ $# -gt 0 ] || set -- $P
WT=/tmp/seedwt   # one fixed path: unchanged packages then hit the go build cache across seeds
git -C /repo worktree remove --force $WT 2>/dev/null
git -C /repo worktree add -q --detach $WT HEAD || exit 9
if ! git -C $WT apply /verif/seeded/$ID/patch.diff 2>/dev/null; then
  if ! git -C $WT apply -3 /verif/seeded/$ID/patch.diff 2>/dev/null; then
    echo "seed $ID: patch does not apply to current HEAD"; git -C /repo worktree remove --force $WT; exit 8
  fi
fi
cd /verif
for C in "$@"; do
  VERIF_REPO_DIR=$WT ./check $C quick > /verif/.work/seed.$ID.$C.log 2>&1; rc=$?
  echo "seed $ID check $C rc=$rc: $(grep -m2 'signature=\|INCONCLUSIVE' /verif/.work/seed.$ID.$C.log | tr '\n' ' ' | cut -c1-300)"
done
git -C /repo worktree remove --force $WT
rm -rf /verif/.work/bin-* /verif/.work/altmod-* 2>/dev/null

#!/bin/bash
# usage: seedrun.sh <seeded-id e.g. C19-a> [check-prop ...]   applies the seeded patch to /repo, runs the quick checks, reverts.
ID=$1; shift
P=${ID%%-*}
[ $# -gt 0 ] || set -- $P
cd /repo && git diff --quiet || { echo "/repo not clean"; exit 9; }
git -C /repo apply /verif/seeded/$ID/patch.diff || exit 8
cd /verif
for C in "$@"; do
  ./check $C quick > /verif/.work/seed.$ID.$C.log 2>&1; rc=$?
  echo "seed $ID check $C rc=$rc: $(grep -m2 'signature=\|INCONCLUSIVE' /verif/.work/seed.$ID.$C.log | tr '\n' ' ' | cut -c1-300)"
done
git -C /repo checkout -- .

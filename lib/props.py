"""Per-property configuration of ./check: engines, stages, tier sizes, evidence texts."""
import json
import os

ROOT = os.path.dirname(os.path.dirname(os.path.abspath(__file__)))

_anchors = {}
with open(os.path.join(ROOT, "properties.jsonl")) as f:
    for line in f:
        line = line.strip()
        if line:
            p = json.loads(line)
            _anchors[p["id"]] = p["anchors"]["files"]

PROPS = {}


def prop(pid, **kw):
    kw.setdefault("anchors", _anchors.get(pid, []))
    PROPS[pid] = kw


# ---------------------------------------------------------------- C13 / C14: allocator
_alloc_stages = [
    # bounded-exhaustive execution of the real allocator (non-race build for throughput)
    dict(pkg="alloc", test="TestExhaustive", sub="exh2x5", race=False, exhaustive=True,
         cases=dict(quick=7 * 14 * 14, thorough=0)),
    dict(pkg="alloc", test="TestExhaustive", sub="exh3x4", race=False, exhaustive=True,
         cases=dict(quick=7 * 22 * 22, thorough=0)),
    dict(pkg="alloc", test="TestExhaustive", sub="exh2x7", race=False, exhaustive=True,
         cases=dict(quick=0, thorough=7 * 14 * 14), batch=dict(thorough=22), timeout=3600),
    dict(pkg="alloc", test="TestExhaustive", sub="exh3x5", race=False, exhaustive=True,
         cases=dict(quick=0, thorough=7 * 22 * 22), batch=dict(thorough=53), timeout=3600),
    # long random scripts under the race detector
    dict(pkg="alloc", test="TestRandom", sub="random", race=True,
         cases=dict(quick=2000, thorough=50000), timeout=3600),
    # concurrent histories checked with porcupine under the race detector
    dict(pkg="alloc", test="TestConcurrent", sub="conc", race=True,
         cases=dict(quick=500, thorough=10000), timeout=3600),
]

prop("C13", level="exploration", stages=_alloc_stages,
     technique="runtime monitoring: lock-step reference-model monitor over bounded-exhaustive + random executions of the real allocator; porcupine over concurrent histories; Go race detector",
     level_text=("Every script of a small scope is actually executed on the real allocator (bounded-exhaustive execution, not a model "
                 "checker) plus long random scripts and concurrent histories; a monitor checks limits and exact accounting after every "
                 "operation. Held = held on those executions; the allocator is small and deterministic, so the small-scope hypothesis is "
                 "the right level here."),
     level_note="Trusts the reference ledger in harness/alloc; unbounded scripts/amounts are sampled, not enumerated.",
     rule=("Real allocator.Allocator executed in lock-step with a reference model written from the statement. "
           "(1) bounded-exhaustive: every script over {alloc,release (incl. over-release),release-peer} x peers x amounts {1,2,3} "
           "for limits (total,per-peer) in {3,4,5}x{2,3} plus (2,3), followed by releasing every peer; one evaluation = one "
           "(limits, first op, second op) prefix whose suffixes are all enumerated (scripts_executed counts the scripts); "
           "(2) 200-op random scripts, 2-6 peers, large amounts; (3) concurrent histories of 3-6 goroutines checked with "
           "porcupine against the model. After every operation: totals <= limits, Stats/AllocatedForPeer == granted-released "
           "(clamped at 0), pending bytes/peers == model; at the end everything is zero. Non-trivial = the script/history was "
           "executed and fully compared; distinct = distinct prefixes / scripts / histories."),
     exhaustive_scope="quick: 2 peers x length<=5(+drain) and 3 peers x length<=4; thorough: 2 peers x length<=7 and 3 peers x length<=5",
     min_nontrivial=dict(quick=1000, thorough=5000),
     min_counters=dict(scripts_executed=dict(quick=1000000, thorough=10000000)),
     assumptions=["the reference model in harness/alloc/model.go states the property correctly",
                  "go-ipfs-pq (dependency) is in scope only through the allocator's observable behaviour"])

prop("C14", level="exploration", stages=_alloc_stages,
     technique="runtime monitoring: lock-step reference-model monitor of ticket states over bounded-exhaustive + random executions; porcupine linearizability check of concurrent histories; Go race detector",
     level_text=("Every ticket's observable state is compared with a statement-derived model after every operation of every script in "
                 "the small scope (executed on the real allocator), of long random scripts, and in concurrent histories (porcupine)."),
     level_note="Trusts the wake-up rule as written in harness/alloc/model.go; promptness is checked at operation boundaries (the allocator is synchronous).",
     rule=("Same executions as C13, different monitor: after every operation each outstanding allocation ticket is read "
           "non-blockingly and its state (granted / waiting / failed) must equal the reference model's, whose wake-up rule is "
           "written from the statement (immediate grant iff nothing of that peer is waiting and it fits both limits; otherwise "
           "FIFO per peer, earliest-requested fitting head first, stop at the first that does not fit the total; release-peer "
           "fails all its waiting tickets); after releasing every peer no ticket may still be waiting. Concurrent histories "
           "include Observe(ticket) operations and are checked with porcupine. Non-trivial/distinct as for C13."),
     exhaustive_scope="quick: 2 peers x length<=5(+drain) and 3 peers x length<=4; thorough: 2 peers x length<=7 and 3 peers x length<=5",
     min_nontrivial=dict(quick=1000, thorough=5000),
     min_counters=dict(scripts_executed=dict(quick=1000000, thorough=10000000)),
     assumptions=["the reference model in harness/alloc/model.go states the property correctly"])


# ---------------------------------------------------------------- C18: notifications publisher
prop("C18", level="exploration",
     stages=[
         dict(pkg="pubsub", test="TestExhaustive", sub="exh", race=True, exhaustive=True,
              cases=dict(quick=121, thorough=121), timeout=3600),
         dict(pkg="pubsub", test="TestRandom", sub="random", race=True,
              cases=dict(quick=5000, thorough=200000), timeout=3600),
         dict(pkg="pubsub", test="TestConcurrent", sub="conc", race=True,
              cases=dict(quick=1000, thorough=20000), timeout=3600),
     ],
     technique="runtime monitoring: recording subscribers at the Subscriber boundary; exact reference-model comparison for single-driver scripts (bounded-exhaustive + random), real-time mandatory/forbidden-set and order oracle for 4-driver histories; Go race detector",
     level_text=("Every OnNext/OnClose the real publisher makes is recorded and compared, per (subscriber, topic), with the exact delivery "
                 "list of a statement-derived model for every script of length <= 5 (6 thorough) over 2 topics x 2 subscribers and for "
                 "random scripts over 3 topics x 4 subscribers; 4-driver concurrent histories are decided from call/return stamps."),
     level_note="Scripts never subscribe a (subscriber, topic) pair that is still live (the statement does not define that case). Completion of asynchronous delivery is detected with the tag-guarded busy counter.",
     rule=("One evaluation = one exhaustive (first op, second op) prefix with all suffixes enumerated (scripts_executed counts scripts), "
           "or one random script, or one 4-driver history; every script ends with Shutdown. Oracle per (subscriber, topic): callback "
           "sequence == model (events published between subscribe and the ending call, in publication order, then exactly one OnClose "
           "per subscription, nothing after); Subscribe/Unsubscribe return values; for concurrent histories: no phantom/duplicate/lost "
           "event (mandatory = publish called after subscribe returned and returned before any ending call started; forbidden = publish "
           "called after an ending call returned or returned before subscribe was called), per-driver and real-time order, consistent "
           "order between subscribers, #OnClose == #successful subscriptions. Non-trivial = executed and compared; distinct by script."),
     exhaustive_scope="all single-driver scripts of length 2..5 (quick) / 2..6 (thorough) over {subscribe,unsubscribe,publish,close,shutdown} x 2 topics x 2 subscribers, each followed by Shutdown",
     min_nontrivial=dict(quick=3000, thorough=50000),
     min_counters=dict(scripts_executed=dict(quick=100000, thorough=1000000)),
     assumptions=["double subscription of a live (subscriber, topic) pair is out of scope of the statement"])


# ---------------------------------------------------------------- C19: per-peer block de-duplication
prop("C19", level="exploration",
     stages=[
         dict(pkg="linktrack", test="TestExhaustive", sub="exh", race=False, exhaustive=True,
              cases=dict(quick=160, thorough=160), timeout=3600),
         dict(pkg="linktrack", test="TestRandom", sub="random", race=True,
              cases=dict(quick=20000, thorough=500000), timeout=3600),
         dict(pkg="linktrack", test="TestDirect", sub="direct", race=True,
              cases=dict(quick=5000, thorough=100000), timeout=3600),
     ],
     technique="runtime monitoring: in-use ledger monitor over send decisions observed in the messages built by the real responseassembler (capturing message handler), tracker-emptiness via tag-guarded accessor; bounded-exhaustive + random scripts; Go race detector",
     level_text=("The real responseassembler/peerlinktracker/linktracker are driven through ResponseStream with interleaved requests; the send "
                 "decision is read off the message actually built. A ledger monitor decides at-most-once-while-in-use, re-sending after all "
                 "requests finished, no residual tracking state, and the completeness flag, for every script of a small scope and random scripts."),
     level_note="Ignore-listed blocks of an unfinished request are treated as 'in use' for the must-send rule only (never for the at-most-once rule), so the monitor demands no more than the statement under either reading.",
     rule=("One evaluation = one exhaustive (start configuration, first op) prefix with all suffixes of 2 requests x 2 links up to the tier length "
           "enumerated, or one random script (1-4 interleaved requests, 1-3 dedup scopes, 4-6 links, ignore lists, skip counts, present/missing "
           "traversals, three ways of finishing), or one direct linktracker script. Non-trivial = more than 3 operations executed; distinct by script."),
     exhaustive_scope="2 requests x 2 links x {present,missing} x finish, 16 start configurations (scopes none/same/different/mixed, ignore list, skip), all op sequences of length <= 4 (quick) / 6 (thorough)",
     min_nontrivial=dict(quick=5000, thorough=100000),
     min_counters=dict(scripts_executed=dict(quick=100000, thorough=10000000)),
     assumptions=["blocks are identified by CID; data passed to SendResponse matches its link"])


# ---------------------------------------------------------------- C08: default selector validation
prop("C08", level="exploration",
     stages=[
         dict(pkg="selval", test="TestValidator", sub="validator", race=True,
              cases=dict(quick=20000, thorough=400000), timeout=3600),
         # end to end: raw requestor -> default-configured responder whose application hooks pause the request and/or attach extensions
         dict(pkg="fullstack", test="TestC08", sub="e2e", race=True, vary_gomaxprocs=True,
              cases=dict(quick=600, thorough=8000), timeout=3600),
     ],
     technique="runtime monitoring: differential oracle - the real ValidateMaxRecursionDepth / default-configured responder versus an independent recursive-descent analyser of the selector spec, over grammar-generated well-formed selectors with planted limits",
     level_text=("Grammar-generated well-formed selectors (kept iff selector.ParseSelector accepts them) with recursion limits planted under every "
                 "clause kind are given to the real validator; its verdict must equal that of an independent analyser written from the "
                 "selector spec. Stage e2e: a raw requestor sends generated selectors (planted limits, chains and trees) to a responder with default settings whose application request hook does nothing / pauses without validating / "
                 "attaches an extension / both; paused requests are then unpaused by the application. Offending selectors must be answered RequestRejected with no block traversed or sent (also after the Unpause); "
                 "the others must not be rejected and must reach a terminal answer."),
     level_note="Well-formedness is what go-ipld-prime's ParseSelector accepts; the analyser knows the clause kinds matcher, all, fields, index, range, union, recursive, edge, interpret-as (others are skipped and counted).",
     rule=("One evaluation = one generated selector (nesting depth <= 6, field names that collide with selector keys, limits {0,1,2,50,99,100} "
           "plus planted {none,101,102,10^6,...}) compared between validator and analyser. Non-trivial = parsed and analysed; distinct by the "
           "selector's dag-json text. distinct_sets.offending_recursion_contexts = distinct (clause kinds on the path, limit kind) of offending recursions."),
     min_nontrivial=dict(quick=5000, thorough=100000),
     min_counters=dict(selectors_with_offending_recursion=dict(quick=2000, thorough=40000), offending_recursions_under_interpret_as=dict(quick=300, thorough=5000),
                       offending_requests_rejected=dict(quick=100, thorough=1500), valid_requests_answered=dict(quick=100, thorough=1500)),
     assumptions=["go-ipld-prime's ParseSelector defines well-formedness"])


# ---------------------------------------------------------------- full-stack data-plane properties
_fs_assume = ["go-ipld-prime's selector traversal defines 'a local selector traversal' (shared with the implementation by design)",
              "the in-memory fabric delivers per-link FIFO like a libp2p stream; every message crosses the real v2 encoder/decoder",
              "quiescence = fabric idle, tag-guarded busy counters zero, mailbox barrier answered, logical clock stable over 5 probes"]

prop("C02", level="exploration",
     stages=[
         dict(pkg="fullstack", test="TestC02Pinned", sub="pinned", race=True, cases=dict(quick=3, thorough=3), batch=1, timeout=1200),
         dict(pkg="fullstack", test="TestC02", sub="random", race=True, vary_gomaxprocs=True,
              cases=dict(quick=600, thorough=3400), timeout=3600),  # case 3492 of this stream: a nested-recursion selector makes go-ipld-prime's selector expansion exhaust memory inside the reference traversal; the stream stops before it
     ],
     technique="runtime monitoring: differential oracle - real requestor and responder instances on an instrumented fabric/store versus a two-store reference traversal (go-ipld-prime only); exact comparison of delivered nodes, missing-block errors and stored blocks; Go race detector",
     level_text=("Generated DAG x selector x store-split cases are executed end to end by two unmodified GraphSync instances (messages cross the "
                 "real wire codec) with link jitter and schedule perturbation; delivered (path, last block, node digest) sequences, the multiset of "
                 "missing-block errors and the final requestor store are compared exactly with a reference model written from the statement."),
     level_note="Three genuine defect classes are recorded as known findings (known_findings.json) and recognised by predicates over the case and the reference model, never by error text.",
     rule=("One evaluation = one generated case run end to end. DAGs: 3-40 (thorough up to 300) blocks, nested maps/lists, inline nodes with links, "
           "shared sub-DAGs, duplicate links, raw + dag-cbor, zero-length raw blocks; selectors from 13 kinds; 8 x 8 store split classes. Non-trivial = "
           "the reference outcome needs the network (at least one block obtained remotely or one link missing); distinct by (root, selector, both stores)."),
     min_nontrivial=dict(quick=200, thorough=3000),
     assumptions=_fs_assume)

prop("C23", level="exploration",
     stages=[
         dict(pkg="fullstack", test="TestC23", race=True, vary_gomaxprocs=True, cases=dict(quick=300, thorough=3000), timeout=3600),
     ],
     technique="runtime monitoring: PeerState(...).Diagnostics() and Stats() sampled by the harness at constructed quiescent points (logical-step quiescence: no message in flight, no step advancing, all live traversals parked at store gates) of generated request histories with holds, releases, context cancels, API cancels, pauses/unpauses on both sides, partial responses and injected send failures; Go race detector",
     level_text=("Per case 3-8 requests from one requestor to 1-2 responders, with 1-3 outgoing and incoming workers, are driven through a generated history of 6-17 "
                 "operations; responder traversals are parked on per-DAG store gates so that queued / running / paused / ended requests coexist. After every operation "
                 "the harness waits for quiescence and reads both nodes' PeerState for every peer: a non-empty Diagnostics() that persists over a sustained quiescent "
                 "window is a violation. After all requests ended, Stats must report 0 active, 0 pending and 0 allocated bytes on every node."),
     level_note="Diagnostics() is the code's own agreement predicate between request states and task-queue topics; the monitor adds the quiescent-point discipline and the history generator.",
     rule=("One evaluation = one history; non-trivial = the history completed with all snapshots taken at confirmed quiescent points; "
           "counters.quiescent_snapshots = number of Diagnostics comparisons actually made."),
     min_nontrivial=dict(quick=200, thorough=3000),
     min_counters=dict(quiescent_snapshots=dict(quick=2000, thorough=30000)),
     assumptions=_fs_assume)

prop("C24", level="exploration",
     stages=[dict(pkg="fullstack", test="TestC24", sub="random", race=True, vary_gomaxprocs=True,
                  cases=dict(quick=500, thorough=6000), timeout=3600)],
     technique="runtime monitoring: wire-log monitor on the fabric (every connect / sender / message of the requestor, every block sent by the responder) checked against the reference traversal's local-prefix length and occurrence indices; Go race detector",
     level_text=("Real requestor and responder on the instrumented fabric; the wire log and the requestor's network call counters are checked "
                 "against the reference model: no network activity when every needed block is local; the first request's do-not-send-first-blocks "
                 "value equals max(user value, blocks loaded locally before the first miss); no block whose occurrences all lie in the skipped "
                 "prefix, no do-not-send-cids block and no block twice on the wire."),
     level_note="A re-occurrence (index > skip) of a block whose first occurrence was skipped may be sent or not (the statement can be read either way).",
     rule=("One evaluation = one generated case (splits biased to requestor-holds-prefix/all/none; a third with user-supplied do-not-send-first-blocks or "
           "do-not-send-cids). Non-trivial = the case was executed and its wire log compared; distinct by (root, selector, stores, user extensions)."),
     min_nontrivial=dict(quick=200, thorough=2000),
     min_counters=dict(all_local_cases=dict(quick=50, thorough=500), requests_with_skip=dict(quick=80, thorough=800)),
     assumptions=_fs_assume)

prop("C03", level="exploration",
     stages=[dict(pkg="fullstack", test="TestC03", sub="random", race=True, vary_gomaxprocs=True,
                  cases=dict(quick=500, thorough=6000), timeout=3600),
             # request 1 cancelled by its requestor while paused / running; the next request of the scope must be served in full
             dict(pkg="fullstack", test="TestC03", sub="aftercancel", race=True, vary_gomaxprocs=True,
                  cases=dict(quick=250, thorough=2500), timeout=3600)],
     technique="runtime monitoring: scripted raw requestor peer -> real responder; every response message recorded on the fabric is compared with reference model 2 (responder's own traversal + send rule written from the statement); store gates make overlapping requests deterministic; Go race detector",
     level_text=("A scripted raw peer sends requests (all combinations of do-not-send-cids, do-not-send-first-blocks incl. 0/1/k/total/total+5/negative, "
                 "dedup-by-key) to a real responder; the concatenated metadata must equal the responder's own traversal (link, present|missing) list, "
                 "every block must travel with its metadata entry exactly when the rule requires it, no other block may appear, and the final status must "
                 "match. Sequential requests must be served in full again; overlapping requests (request 1 held at a store gate) must omit exactly what "
                 "request 1 already traversed with a block in the same scope. Stage aftercancel: request 1 is paused by an outgoing-block hook or held inside a store read, cancelled by its requestor in that state, and once the responder no longer lists it a second request of the same scope (fresh id, or the same id when request 1 had produced no output) must be served in full."),
     level_note="Don't-care: a re-occurrence (index > skip) of a block whose first occurrence fell inside the skipped prefix may be sent or not. For the held request of an overlapping pair only 'no forbidden block' is checked for its tail.",
     rule=("One evaluation = one generated (DAG, responder store, selector, extension combination, mode in {single, sequential, overlap}) scenario. "
           "Non-trivial = executed and every received response message compared; distinct by (root, selector, store, mode, extensions)."),
     min_nontrivial=dict(quick=200, thorough=3000),
     min_counters=dict(overlap_cases=dict(quick=40, thorough=600)),
     assumptions=_fs_assume)

prop("C07", level="exploration",
     stages=[dict(pkg="fullstack", test="TestC07", sub="random", race=True, vary_gomaxprocs=True,
                  cases=dict(quick=600, thorough=5000), timeout=3600)],
     technique="runtime monitoring: block loads counted at the instrumented store boundary (read hits + commits) of the enforcing peer, compared with the number of link loads of the unbudgeted reference traversal; error/status monitors; Go race detector",
     level_text=("Real requestor/responder pairs with a link budget N set globally, per request (hook MaxLinks) or both, on either side; the number of "
                 "blocks the enforcing peer actually loads (counted at its store) must be <= N, the request must not fail when the reference traversal "
                 "needs <= N loads, and must fail with a budget error (requestor: errors.As *traversal.ErrBudgetExceeded; responder: terminal failure "
                 "status) after exactly N loads otherwise."),
     level_note="'Blocks a traversal needs' = number of link-load events of the unbudgeted reference traversal (a block loaded twice counts twice, as the budget does). Cases are restricted to those where every link resolves on the enforcing side.",
     rule=("One evaluation = one (DAG, selector, side, placement, N in {1,2,need-1,need,need+1,2*need,random}) scenario. Non-trivial = executed and "
           "decided; distinct by (root, selector, side, placement, N, requestor store)."),
     min_nontrivial=dict(quick=200, thorough=2000),
     min_counters=dict(over_budget_cases=dict(quick=100, thorough=1000), within_budget_cases=dict(quick=100, thorough=1000)),
     assumptions=_fs_assume)

prop("C01", level="exploration",
     stages=[dict(pkg="fullstack", test="TestC01", sub="adversary", race=True, vary_gomaxprocs=True,
                  cases=dict(quick=400, thorough=4000), timeout=3600),
             # data streamed at a request whose loader is offline (paused) must not surface under another link later
             dict(pkg="fullstack", test="TestC01Stale", sub="stale", race=True, vary_gomaxprocs=True,
                  cases=dict(quick=200, thorough=1500), timeout=3600)],
     technique="runtime monitoring: online hash monitor on every store commit + offline subsequence check of delivered nodes against the reference traversal of the true DAG, under a seeded man-in-the-middle adversary and a fully scripted raw responder; process survival; Go race detector",
     level_text=("A real requestor (random local subset of the true DAG) talks to (a) a real responder whose messages are rewritten by a seeded "
                 "man-in-the-middle applying 16 mutation operators (reorder/duplicate/drop/insert/substitute metadata, flipped actions, dropped, foreign, "
                 "forged and unrequested blocks, contradictory statuses, other request ids, replays, duplicates, truncation, blocks moved to later "
                 "messages) or (b) a raw peer emitting generated response streams. Every store commit must hash to its link and be a block the true "
                 "traversal loads; delivered nodes must be an order-preserving subsequence of the true traversal's visits; the process must survive. "
                 "Stage stale: a scripted responder keeps streaming blocks (the rest of the DAG and foreign blocks) at a request that the requestor has paused, then answers a second request "
                 "with links marked present but no data; nothing may be stored or delivered for links whose data was never sent, and every commit must hash to its link."),
     level_note="Completeness is not demanded here (C02 does that); a request left waiting by a truncated stream is cancelled by the harness and soundness is still decided.",
     rule=("One evaluation = one (DAG, selector, requestor store, adversary mode, mutation seed) execution. Non-trivial = at least one mutation or "
           "scripted message was actually applied while the request was live; distinct by case. counters mutation:* give the number of applications "
           "of each operator."),
     min_nontrivial=dict(quick=120, thorough=2000),
     assumptions=_fs_assume + ["CIDs bind content: a block whose bytes hash to a link of the true DAG is genuine content"])

prop("C09", level="exploration",
     stages=[dict(pkg="fullstack", test="TestC09", sub="thirdparty", race=True, vary_gomaxprocs=True,
                  cases=dict(quick=500, thorough=4000), timeout=3600),
             # a caller-chosen request id re-used for another peer after a paused request was cancelled
             dict(pkg="fullstack", test="TestC09Reuse", sub="idreuse", race=True, vary_gomaxprocs=True,
                  cases=dict(quick=100, thorough=1000), timeout=3600)],
     technique="runtime monitoring: hook-invocation monitor and outgoing wire-log monitor on the requestor plus differential outcome check (reference model 1) while a scripted third peer injects responses carrying the victim request id at chosen delivery positions; Go race detector",
     level_text=("An honest exchange (real requestor, real responder holding the whole DAG) runs while a raw third peer injects responses with the victim's "
                 "request id - every status code, honest-looking and garbage metadata, true and foreign blocks, extensions that make a realistic "
                 "response hook fail or request an update - at positions tied to the delivery of the genuine messages. Monitors: no response/block hook "
                 "invocation with (peer = third party, id = victim); no message from the requestor to the third party; outcome exactly equal to the reference."),
     level_note="Cases are restricted to responders holding the whole DAG and selectors without duplicate load paths, so that C02's recorded known findings cannot be mistaken for third-party influence.",
     rule=("One evaluation = one case with 1-9 injected third-party messages. Non-trivial = at least one injected message was delivered while the victim "
           "request was still live; distinct by case. distinct_sets.injected_kinds = distinct (extension behaviour, status) combinations injected."),
     min_nontrivial=dict(quick=200, thorough=2500),
     assumptions=_fs_assume)

prop("C10", level="exploration",
     stages=[dict(pkg="fullstack", test="TestC10", sub="crosspeer", race=True, vary_gomaxprocs=True,
                  cases=dict(quick=500, thorough=6000), timeout=3600)],
     technique="runtime monitoring: differential check of the victim's wire stream and listener notifications against reference model 2 while a second scripted peer sends Cancel/Update/New with the victim's request id at constructed lifecycle points (fabric gates, store gates, hook pauses); Go race detector",
     level_text=("Raw peer A's request is served by a real responder; raw peer X sends a Cancel, an Update (plain / asking to unpause / making the update "
                 "hook fail) or a New request (same or other root) carrying A's request id while A's response is queued (single worker held at a store "
                 "gate), running (held at a store gate), paused (outgoing-block hook), after the j-th response message, or complete but unsent (connection to A stalled: state completing-send). A's received metadata, blocks and "
                 "final status must equal the responder's own traversal exactly, A must receive no extension data caused by X, and the completed / "
                 "cancelled listeners must report exactly one completion with the wire status for (A, id). After A's response has ended the responder must hold nothing for it (no entry under A in the reported states, connection protection released)."),
     level_note="The update hook registered on the responder reacts to the verification extension like a real consumer (unpause / terminate / answer).",
     rule=("One evaluation = one (DAG, store, selector, lifecycle point, attack kind) scenario. Non-trivial = the attacker's message was actually sent at the "
           "constructed point; distinct by case; distinct_sets.point_x_attack = distinct (lifecycle point, attack kind) pairs exercised (24 possible)."),
     min_nontrivial=dict(quick=150, thorough=2000),
     assumptions=_fs_assume)

prop("C06", level="exploration",
     stages=[dict(pkg="fullstack", test="TestC06", sub="pause", race=True, vary_gomaxprocs=True,
                  cases=dict(quick=700, thorough=2100), timeout=3600),
             # the resume is sent by the requestor's response hook the moment it sees RequestPaused
             dict(pkg="fullstack", test="TestC06", sub="reactive", race=True, vary_gomaxprocs=True,
                  cases=dict(quick=200, thorough=600), timeout=3600)],
     technique="runtime monitoring: differential outcome check (reference model 1) of exchanges paused and resumed on either side via API or hooks at every block index and resume timing, plus a wire-log monitor for data sent while a response is paused; Go race detector",
     level_text=("C02-style cases are run with one pause: requestor API, requestor incoming-block hook, responder API, responder outgoing-block hook, responder "
                 "request hook (start paused) resumed by API or by an update hook, responder outgoing-block hook resumed by an update the requestor's response hook sends the moment it sees RequestPaused (stage reactive, with a widened window before the executor reports its task finished); at a random block index; resumed after quiescence, immediately (retrying "
                 "until the pause has taken effect) or after a random delay. The outcome must equal the uninterrupted reference outcome exactly, and "
                 "between a RequestPaused message and the accepted unpause the responder must not send metadata or blocks for the request."),
     level_note="Cases are kept out of C02's known-finding classes. Requestor-side resumes with an undrained pre-pause stream are a recorded known finding (protocol limitation), recognised from wire/listener events and the reference load list only.",
     rule=("One evaluation = one (case, pause side, block index, resume timing) execution. Non-trivial = the pause really took place before the request "
           "finished; distinct by (case, side, index, timing); distinct_sets.side_x_timing = (side, timing) pairs exercised (18 possible)."),
     min_nontrivial=dict(quick=300, thorough=4000),
     assumptions=_fs_assume)


# ---------------------------------------------------------------- mq engine: C15 C16 C17
_mq_assume = ["peermanager + messagequeue + allocator (+ responseassembler) are wired exactly as impl.New wires them; the network is a fault-injecting fake at the MessageNetwork interface",
              "quiescence = busy counters zero, no queued builders, no queue between Shutdown() and exit, logical clock stable over 5 probes"]

prop("C15", level="fault_enumeration",
     stages=[dict(pkg="mq", test="TestLedger", sub="ledger", race=True, vary_gomaxprocs=True,
                  cases=dict(quick=1500, thorough=20000), timeout=3600)],
     technique="runtime monitoring: conservation ledger at the messagequeue.Allocator boundary (wrapper around the real allocator: reserved - released per peer) checked at every idle point, over response operations driven through the real responseassembler with enumerated send/connect/sender failures, retry exhaustion and disconnects; Go race detector",
     level_text=("Response operations (blocks incl. > 512 KiB to force message splits, extension data, statuses, 1-4 requests per peer, first send held so "
                 "that later messages queue up) are queued through the real responseassembler/peermanager/messagequeue; faults are placed at send index j "
                 "(once / until retries are exhausted), at connect, at sender creation, or as a disconnect. At the idle point every peer's accounted memory "
                 "(real allocator and ledger) must be zero, no release may exceed what was reserved, and block bytes on the wire never exceed bytes reserved. A third of the cases run with a per-peer allowance of 4-16 KiB so that transactions wait for memory while earlier messages are held, sent or failed; a producer still waiting for memory at sustained quiescence is a violation of its own."),
     level_note="Data queued into a queue that is already shutting down is a recorded known finding (shared with C16).",
     rule=("One evaluation = one (operation plan, fault kind, fault position, retries, hold) scenario. Non-trivial = executed to an idle point and "
           "decided; distinct by scenario; distinct_sets.fault_kinds lists the fault kinds hit."),
     min_nontrivial=dict(quick=500, thorough=8000),
     min_counters=dict(injected_send_failures=dict(quick=100, thorough=1500), cases_with_message_split=dict(quick=50, thorough=800)),
     assumptions=_mq_assume)

prop("C16", level="exploration",
     stages=[dict(pkg="mq", test="TestQueue", sub="queue", race=True, vary_gomaxprocs=True,
                  cases=dict(quick=1000, thorough=20000), timeout=3600),
             # scripted histories: a send held inside SendMsg with messages queued behind it, then all retries fail
             # (scrub of pending messages) or the peer's last connection goes away (shutdown drain)
             dict(pkg="mq", test="TestQueueScripted", sub="scripted", race=True, vary_gomaxprocs=True,
                  cases=dict(quick=400, thorough=8000), timeout=3600)],
     technique="runtime monitoring: exactly-once checker over Subscriber events - every build carries a unique id in the message's block-data metadata and must be covered by exactly one Sent/Error event delivered to its request's subscriber - under concurrent producers, injected send/connect failures, retry exhaustion, connection flaps and a widened queue-shutdown window; Go race detector",
     level_text=("2-6 producer goroutines build messages for 1-3 peers through the real peermanager/messagequeue while the script injects send failures, "
                 "retry exhaustion, connect / sender failures and Connected/Disconnected flaps; a third of the runs pin a delay between a queue's "
                 "decision to shut down and its shutdown callback. At quiescence every build id must appear in exactly one terminal event of its "
                 "request's subscriber; zero is accepted only under the documented scrub rule (an Error for the same request was delivered after the build began). "
                 "Stage scripted: one message is held inside SendMsg, 3-7 messages (distinct or shared requests, own or shared wire messages) are queued behind it, then either every retry fails, "
                 "or the peer's last connection goes away and the held send then succeeds or fails; same exactly-once oracle."),
     level_note="Builds that land in a queue which has already begun shutting down are a recorded known finding.",
     rule=("One evaluation = one concurrent scenario (10-50 builds). Non-trivial = executed to quiescence and every build decided; distinct by scenario. "
           "counters.builds_started_inside_a_queue_shutdown_window = builds that began while a queue of that peer was between Shutdown() and exit."),
     min_nontrivial=dict(quick=800, thorough=16000),
     min_counters=dict(builds_started_inside_a_queue_shutdown_window=dict(quick=5, thorough=100), error_events=dict(quick=50, thorough=1000), scripted_histories=dict(quick=300, thorough=6000)),
     assumptions=_mq_assume)

prop("C17", level="exploration",
     stages=[dict(pkg="mq", test="TestQueue", sub="queue", race=True, vary_gomaxprocs=True,
                  cases=dict(quick=1000, thorough=20000), timeout=3600),
             # scripted histories: a send held inside SendMsg with messages queued behind it, then all retries fail
             # (scrub of pending messages) or the peer's last connection goes away (shutdown drain)
             dict(pkg="mq", test="TestQueueScripted", sub="scripted", race=True, vary_gomaxprocs=True,
                  cases=dict(quick=400, thorough=8000), timeout=3600)],
     technique="runtime monitoring: queue liveness from wrapped factory events (created / Startup / Shutdown / shutdown callback) checked at quiescent points against the peer table, plus a happens-before FIFO checker over unique build ids in the wire log; Go race detector",
     level_text=("Same executions as C16, different monitor: at the final quiescent point each peer has at most one started-and-not-exited queue, it is the "
                 "one in the peer table, no queue is still live after Shutdown(), and no queue outlives the peer's last disconnect when nothing was queued "
                 "since; two builds for one peer ordered by happens-before (return before call) must not leave in the opposite order. "
                 "Stage scripted: the same monitors over histories with a held send, several pending messages, a failed message whose requests are scrubbed from the pending ones, and shutdown drains."),
     level_note="Liveness is checked at quiescent points only (the overlap between removal from the table and Shutdown() is legitimate for liveness); re-ordering across that overlap is a recorded known finding.",
     rule=("One evaluation = one concurrent scenario with 0-5 connection flaps. Non-trivial = executed to quiescence; distinct by scenario. "
           "counters.queues_created / wire_messages describe what was observed."),
     min_nontrivial=dict(quick=800, thorough=16000),
     min_counters=dict(queues_created=dict(quick=1000, thorough=20000), scripted_histories=dict(quick=300, thorough=6000)),
     assumptions=_mq_assume)


# ---------------------------------------------------------------- wire engine: C11 C12
prop("C11", level="exploration",
     stages=[dict(pkg="wire", test="TestRoundTrip", sub="roundtrip", race=True,
                  cases=dict(quick=5000, thorough=100000), timeout=3600)],
     technique="runtime monitoring: round-trip oracle - generated well-formed messages through the real ToNet / FromNet / FromMsgReader and structural equivalence (map order insensitive, nil == Null) of everything decoded, including multi-message streams and the three extension codecs",
     level_text=("Generated messages (0-5 requests of each type, all 14 status codes, 0-50 metadata entries over the 4 actions, extensions with null / bytes / "
                 "string / int / bool / float / link / nested values, 0-20 blocks over CID v0/v1 x 7 codecs x every multihash function usable here incl. "
                 "identity and truncated digests, empty blocks, extreme priorities) are encoded and decoded; streams of 1-8 messages are read back through "
                 "one msgio reader and must end with EOF; cid sets, skip counts and dedup keys must decode to the values encoded."),
     level_note="Cancel requests are compared on (id, type), updates on (id, type, extensions): that is all those constructors carry.",
     rule=("One evaluation = one stream of 1-8 generated messages. Non-trivial = encoded, decoded and compared; distinct by stream. "
           "distinct_sets.cid_kinds / hash_functions_used list the CID shapes actually used."),
     min_nontrivial=dict(quick=2000, thorough=40000),
     min_counters=dict(multi_message_streams=dict(quick=500, thorough=10000)),
     assumptions=["well-formed = constructible through the message constructors with dag-cbor-encodable values"])

prop("C12", level="exploration",
     stages=[
         dict(pkg="wire", test="TestFuzzDecode", sub="decode", race=True, cases=dict(quick=50000, thorough=1000000), timeout=7200),
         # live node on mocknet: one child process per 200 inputs, journal written before every input
         dict(pkg="wire", test="TestStreamFuzz", sub="stream", race=True, cases=dict(quick=3000, thorough=60000), batch=200, timeout=3600),
     ],
     technique="runtime monitoring: hostile byte streams (mutations of valid encodings + structurally valid hostile messages) sent over real libp2p mocknet streams to a live default-configured node in child processes; survival + canary request, exactly-one ReceiveError + stream reset per malformed input (reference classification by an independent frame reader), recomputed block CIDs and id lengths; race detector / checkptr",
     level_text=("(a) 50k / 2M mutated inputs through FromNet with every decoded message re-checked (block key == CID recomputed from its prefix and bytes, ids "
                 "16 bytes); (b) 3k / 60k inputs written to real streams of a live default-configured impl.New node behind network.NewFromLibp2pHost on a "
                 "libp2p mocknet, in child processes of 200 inputs with a journal: the node must survive, a malformed input must produce exactly one "
                 "ReceiveError and a stream reset, a well-formed one none, and a valid canary request on a fresh stream must be served after every 25 inputs."),
     level_note="Whether an input is malformed is decided by an independent reader loop over the same frames (io.EOF at a frame boundary = clean end). A dead child is a violation whose replay is the journal's last input.",
     rule=("One evaluation = one hostile input. Non-trivial = the input was delivered (in-process or on a stream) and its outcome decided; distinct by "
           "(mutation kind, length, index); distinct_sets.mutation_kinds = mutation operators and structured hostile message kinds used (~40)."),
     min_nontrivial=dict(quick=20000, thorough=500000),
     min_counters=dict(canary_requests_served=dict(quick=100, thorough=2000), malformed_inputs=dict(quick=1000, thorough=20000)),
     assumptions=["libp2p mocknet streams stand in for real transports (the stream handler, msgio framing and reset semantics are the real ones)"])

prop("C20", level="exploration",
     stages=[dict(pkg="fullstack", test="TestC20", sub="concurrent", race=True, vary_gomaxprocs=True,
                  cases=dict(quick=400, thorough=2400), timeout=3600)],
     technique="runtime monitoring: 2-5 concurrent requests between one real requestor and one real responder over overlapping / disjoint DAGs with per-request speed skew (block-hook delays, link jitter, yield-point perturbation); each request's delivered nodes compared with its stand-alone reference traversal, final store checked for every loaded block; Go race detector",
     level_text=("Classes: overlapping DAGs in the default scope, overlapping DAGs under one shared explicit dedup key (half of the same-scope cases with a one-worker responder), overlapping DAGs with distinct dedup keys, disjoint DAGs, overlapping DAGs whose shared blocks the "
                 "requestor already holds. The responder holds everything, so each request's stand-alone result is the full traversal of its (sub-)DAG with "
                 "no missing-block error; afterwards every block any traversal loads must be in the requestor store."),
     level_note="Overlap in one dedup scope while both requests are in progress on the responder is a recorded known finding (recognised from hook and wire events); everything else must hold, including same-scope requests of which one had finished before the other reached the shared block.",
     rule=("One evaluation = one set of concurrent requests. Non-trivial = all requests ran to completion and were compared; distinct by case; "
           "distinct_sets.classes = classes exercised."),
     min_nontrivial=dict(quick=150, thorough=2500),
     assumptions=_fs_assume)

prop("C04", level="fault_enumeration",
     stages=[dict(pkg="fullstack", test="TestC04", sub="termination", race=True, vary_gomaxprocs=True,
                  cases=dict(quick=640, thorough=2560), timeout=3600),
             # trigger while the request is queued again after pause + unpause (single worker kept busy by a filler request)
             dict(pkg="fullstack", test="TestC04Requeued", sub="requeued", race=True, vary_gomaxprocs=True,
                  cases=dict(quick=150, thorough=1200), timeout=3600)],
     technique="runtime monitoring: consumer-side channel monitors (closed-by-quiescence as bounded liveness, error identity) and a wire-log monitor for the Cancel message, over enumerated trigger kinds x logical positions (fabric gates) x responder kinds (real / scripted with every terminal code / silent) x extras (pause, hook errors, injected send failures); process crash = send on closed channel; Go race detector",
     level_text=("Small DAGs; trigger in {terminal status delivered, context cancel, cancel API} x position in {immediately, while queued (single worker occupied), "
                 "after j response messages with the responder then held by a fabric gate, after terminal delivery} x responder in {real, scripted with each of "
                 "the 8 terminal codes after j partial messages, silent} x extras in {none, requestor pause then cancel, response-hook error, block-hook error, "
                 "failed sends of the outgoing request / of everything with MessageSendRetries(2)}. Oracle: once the trigger happened, both channels are closed "
                 "by the time the system is quiescent (confirmed over a 3 s sustained-quiescence window); Cancel() returns; a cancellation issued while "
                 "completion was impossible yields RequestClientCancelledErr and a Cancel on the wire (or an attempted send under injected faults); a failure "
                 "status yields an error of the same type and text as status.AsError(); late deliveries after close are harmless (no panic)."),
     level_note="'Eventually' is decided as bounded progress up to logical quiescence. Cancellations racing with completion accept either outcome but always require termination. Stage requeued constructs the state 'paused, unpaused, waiting for a worker' (one outgoing worker, occupied by a request to a silent peer) and applies context cancel / API cancel / each failure status there.",
     rule=("One evaluation = one scenario. Non-trivial = executed and decided; distinct by (responder, trigger, position, extra, code, j, size); "
           "distinct_sets.scenario_kinds = distinct (responder, trigger, position, extra) combinations."),
     min_nontrivial=dict(quick=300, thorough=4000),
     min_counters=dict(triggers_that_happened=dict(quick=300, thorough=6000)),
     assumptions=_fs_assume)

prop("C05", level="fault_enumeration",
     stages=[dict(pkg="fullstack", test="TestC05", sub="retire", race=True, vary_gomaxprocs=True,
                  cases=dict(quick=800, thorough=10000), timeout=3600),
             # a pause and an abort both signalled between two blocks (traversal parked in a store read), either order
             dict(pkg="fullstack", test="TestC05Signals", sub="signals", race=True, vary_gomaxprocs=True,
                  cases=dict(quick=200, thorough=2000), timeout=3600)],
     technique="runtime monitoring: listener-event monitor (completed / cancelled / network-error counts per request), recording ConnManager (Protect/Unprotect balance), PeerState and Stats snapshots at quiescence, over enumerated request-hook decisions x requestor messages x responder API calls x send-fault placements with scripted raw requestors; Go race detector",
     level_text=("Raw requestor peers send 1-2 requests to a real responder; enumerated: request-hook decision in {validate, reject, terminate-with-error, pause} x "
                 "requestor message in {none, cancel, update (accepted / failing)} after the j-th response message x responder API in {none, Pause->Unpause, "
                 "Pause->Cancel, Cancel, SendUpdate} at block k x send fault in {none, message j fails once, fails until retries are exhausted, connect failure}; "
                 "every paused response is later unpaused or cancelled by the script. At quiescence (liveness verdicts confirmed over a sustained window) each "
                 "request has completed<=1, cancelled<=1, not both, at least one outcome, exactly one of completed/cancelled and no network error when no "
                 "fault was injected, completed status == wire status, no entry in PeerState, balanced Protect/Unprotect, no active/pending task."),
     level_note="Exclusivity between network-error and the other outcomes is not asserted when a fault was injected. Requests whose data was queued into a self-shut-down queue are a recorded known finding.",
     rule=("One evaluation = one scenario. Non-trivial = executed to quiescence and decided; distinct by scenario; distinct_sets.scenario_kinds = distinct "
           "(hook, requestor message, API, fault) combinations."),
     min_nontrivial=dict(quick=300, thorough=4000),
     min_counters=dict(injected_faults_hit=dict(quick=80, thorough=1000)),
     assumptions=_fs_assume)

prop("C22", level="fault_enumeration",
     stages=[
         dict(pkg="fullstack", test="TestC22", sub="traversal", race=True, vary_gomaxprocs=True, cases=dict(quick=150, thorough=1500), timeout=3600),
         # storage callbacks: small batches, the case is journalled before it runs (a crash identifies its killer)
         dict(pkg="fullstack", test="TestC22", sub="storage", race=True, cases=dict(quick=96, thorough=960), batch=dict(quick=6, thorough=12), timeout=1800),
     ],
     technique="runtime monitoring: panic injection at the k-th invocation of each user-supplied function (decoder, node reifier, prototype chooser, StorageReadOpener, StorageWriteOpener, block committer) on requestor or responder, in child processes; monitors: process survival, error for the panicking request, panic-callback invocation, differential check of a healthy bystander request; Go race detector",
     level_text=("For each site x side x block index k a victim request runs with the panic armed while (half of the time concurrently) a healthy bystander request "
                 "over a disjoint DAG runs between the same two nodes. The process must survive (a dead child is a violation, replay = journal), the victim "
                 "must receive an error, the configured PanicCallback of the panicking side must be invoked, and the bystander's outcome must equal its reference."),
     level_note="'Selector' panics are represented by the codec / reifier / chooser sites (all run on the traverser goroutine inside the selector walk).",
     rule=("One evaluation = one (site, side, k) scenario. Non-trivial = the injected panic actually fired; distinct by (site, side, k, size, overlap); "
           "distinct_sets.site_x_side = combinations in which a panic fired."),
     min_nontrivial=dict(quick=60, thorough=600),
     assumptions=_fs_assume)

prop("C25", level="fault_enumeration",
     stages=[
         dict(pkg="fullstack", test="TestC25", sub="responder", race=True, vary_gomaxprocs=True, cases=dict(quick=200, thorough=1500), timeout=3600),
         dict(pkg="fullstack", test="TestC25", sub="requestor", race=True, vary_gomaxprocs=True, cases=dict(quick=200, thorough=1500), timeout=3600),
     ],
     technique="runtime monitoring: fault injection in the in-memory network (one peer's connection stalled indefinitely so its per-peer memory allowance fills / a responder that goes silent mid-response) while healthy peers run hook-, extension-, update- and pause-driven exchanges; oracle: at logical quiescence (no step advancing, stall still in place) every healthy request has completed and equals its reference outcome; mailbox barrier detects a blocked manager goroutine; Go race detector",
     level_text=("sub responder: a raw peer S sends 1..W+1 requests over DAGs larger than its allowance while the link responder->S is stalled, then performs 0-4 further actions "
                 "(new requests, cancels, responder-API cancels incl. double cancels, updates, pause/unpause); 1-2 healthy GraphSync peers then run 1-3 requests each "
                 "(plain / request extension answered by hook / update round trip / hook pause + update-driven unpause). Worker count 2-4, per-peer limit unset or 1..W-1, allowance 2-4 blocks. "
                 "sub requestor: a requestor has 1..W-1 requests to a raw responder that sends a few valid blocks and goes silent (connection to it optionally stalled), applies 0-4 API actions to them, "
                 "and runs healthy exchanges with 1-2 real responders. Verdict is taken at logical quiescence, re-confirmed over sustained windows; no wall-clock deadline decides."),
     level_note="The property's 'within a deadline' is decided as: the system has stopped making steps (quiescent) while the stall persists and a healthy request is unfinished. Two recorded findings cover configurations in which the code does starve other peers.",
     rule=("One evaluation = one scenario. Non-trivial = (responder sub) the stalled peer actually had a pending reservation when the healthy peers started, and all healthy requests were compared with their reference; "
           "distinct_sets list the stalled-peer actions and healthy request kinds that occurred."),
     min_nontrivial=dict(quick=150, thorough=2000),
     assumptions=_fs_assume)

prop("C21", level="exploration",
     stages=[
         dict(pkg="taskq", test="TestC21Queue", sub="queue", race=True, vary_gomaxprocs=True, cases=dict(quick=1500, thorough=20000), timeout=3600),
         dict(pkg="fullstack", test="TestC21", sub="incoming", race=True, vary_gomaxprocs=True, cases=dict(quick=200, thorough=2000), timeout=3600),
         dict(pkg="fullstack", test="TestC21", sub="outgoing", race=True, vary_gomaxprocs=True, cases=dict(quick=200, thorough=2000), timeout=3600),
     ],
     technique="runtime monitoring: (queue) instrumented Executor on the real WorkerTaskQueue counting concurrent ExecuteTask invocations per queue and per peer, exactly-once and bounded-progress monitors over generated arrival patterns with gated task durations; (incoming/outgoing) end-to-end: traversals parked at per-DAG store gates / raw responders that answer on command, concurrency and work-conservation oracles at logical-quiescence snapshots; Go race detector",
     level_text=("queue: W in {1,2,3,6} workers, per-peer limit unset/1/2 (configured as impl.New configures the response queue), 2-6 peers, 15-55 steps of {burst push (one flooding peer), "
                 "release a running task, Remove a pending task}; monitors: concurrent ExecuteTask <= W, per peer <= P (until TaskDone), no task executed twice or after removal, an eligible "
                 "pending task next to a free worker must start within 40 ticker rounds (logical bound; ticker rounds are reported by a hook), everything not removed has run when the script ends. "
                 "incoming: 2-4 raw requestor peers -> real responder, every traversal parked at a store gate, 10-35 steps of {burst of requests, release, requestor/responder cancel of queued or running "
                 "requests, request immediately cancelled}; at every quiescent snapshot: parked <= W, per peer <= P, and no un-cancelled waiting request whose peer is below its limit while a worker is free "
                 "(re-confirmed over sustained quiescent windows); after the drain every un-cancelled request has a terminal answer. outgoing: the same for MaxInProgressOutgoingRequests with raw responders."),
     level_note="'Eventually' is decided as bounded progress (ticker rounds / sustained logical quiescence). Starvation verdicts in the end-to-end stages are re-confirmed over 3 sustained windows of 1.2 s (12 thaw periods each) because thawing a peer after a removed task is clock driven in the code itself.",
     rule=("One evaluation = one generated history. Non-trivial = the history ran to the end with all snapshots taken; distinct by (W, P, peers, size, case); counters report how many histories reached the worker limit "
           "and the per-peer limit exactly (the interesting boundary)."),
     min_nontrivial=dict(quick=1500, thorough=30000),
     min_counters=dict(cases_reaching_worker_limit=dict(quick=800, thorough=15000), cases_reaching_per_peer_limit=dict(quick=300, thorough=5000)),
     assumptions=_fs_assume)


# ---------------------------------------------------------------- vacuity thresholds of the thorough tier
# The quick thresholds are calibrated against observed quick runs. The thorough thresholds are derived from them:
# scaled by half of the smallest per-stage growth factor, never below the quick threshold.
def _normalise_thorough_thresholds():
    for pid, spec in PROPS.items():
        ratios = []
        for st in spec["stages"]:
            c = st["cases"]
            if isinstance(c, dict) and c.get("quick", 0) > 0 and c.get("thorough", 0) > 0:
                ratios.append(c["thorough"] / c["quick"])
        r = min(ratios) if ratios else 1.0

        def scale(q):
            return max(q, int(q * r * 0.5))
        mn = spec.get("min_nontrivial")
        if isinstance(mn, dict) and "quick" in mn:
            mn["thorough"] = scale(mn["quick"])
        for name, need in (spec.get("min_counters") or {}).items():
            if isinstance(need, dict) and "quick" in need:
                need["thorough"] = scale(need["quick"])


_normalise_thorough_thresholds()

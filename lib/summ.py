#!/usr/bin/env python3
# compact summary of a child result file: summ.py <result.json> [exclude-sig ...]
import json,sys,collections
r=json.load(open(sys.argv[1])); ex=set(sys.argv[2:])
print('eval',r['evaluations'],'nontrivial',len(r['nontrivial'] or []),'inconcl',(r['inconclusive'] or [])[:3])
print('counters',r['counters'],{k:len(v) for k,v in (r.get('sets') or {}).items()})
print(collections.Counter(v['sig'] for v in r['violations']))
n=0
for v in r['violations']:
    if v['sig'] not in ex and n<12: n+=1; print(' ',v['case'],v['sig'],v['what'][:170])

#!/usr/bin/env python3
"""Writes seeded/<id>/meta.json and seeded/RESULTS.md from the last seed sweep (.work/seedsweep.log, lines produced by
lib/seedrun.sh) and the re-confirmation log (.work/reconfirm.log, lib/confirm_port.sh)."""
import json, os, re, subprocess
ROOT = "/verif"
sweep = {}
for line in open(os.path.join(ROOT, ".work/seedsweep.log"), errors="replace"):
    m = re.match(r"seed (C\d+-[a-d]) check (C\d+) rc=(\d+):\s*(.*)", line)
    if m:
        sid, chk, rc, rest = m.group(1), m.group(2), int(m.group(3)), m.group(4)
        sigs = re.findall(r"signature=([^:\s]+)", rest)
        sweep[sid] = [x for x in sweep.get(sid, []) if x["check"] != chk]
        sweep.setdefault(sid, []).append(dict(check=chk, command="lib/seedrun.sh %s %s  (= VERIF_REPO_DIR=<scratch worktree with the patch> ./check %s quick)" % (sid, chk, chk),
                                              exit_code=rc, signatures=sigs, note=("inconclusive: " + rest[:200]) if rc == 2 else ""))
    m = re.match(r"seed (C\d+-[a-d]): patch does not apply", line)
    if m:
        sweep.setdefault(m.group(1), []).append(dict(check="-", command="lib/seedrun.sh", exit_code=8, signatures=[], note="patch does not apply to HEAD"))
conf = {}
for line in open(os.path.join(ROOT, ".work/reconfirm.log"), errors="replace"):
    m = re.match(r"(C\d+-[a-d]): demo_unmodified_rc=(\d+) demo_with_change_rc=(\d+) suite_with_change_rc=(\d+)", line)
    if m:
        conf[m.group(1)] = dict(demo_passes_unmodified=m.group(2) == "0", demo_fails_with_change=m.group(3) != "0", suite_passes_with_change=m.group(4) == "0")
# seeds whose effect my own fix: commits removed (see DESIGN.md 11.6); the sweep result is still recorded
NEUTRALISED = {
    "C15-a": "neutralised by fix b69a6ad (a message now releases exactly what was reserved for it, so counting a duplicate block once no longer leaks); its demonstration passes with the change on HEAD. Detected by C15 (memory-left-allocated-on-idle-queue) before that fix.",
    "C20-b": "same edit as C15-a (message/builder.go AddBlock); neutralised by fix b69a6ad; demonstration passes with the change on HEAD.",
    "C10-a": "neutralised by fix c220a91 (messages of another peer that carry the victim's request id never reach newRequest any more); its demonstration now stops in its own set-up ('peer B's refusal never went out') with and without the change. Detected by C10 before that fix.",
    "C10-b": "neutralised by fix c220a91 (a Cancel from another peer is dropped before abortRequest); demonstration passes with the change on HEAD. Detected by C10 before that fix.",
    "C09-a": "its C09 effect is neutralised by fix 55f5b00 (the ownership test before the hooks no longer goes through the function the change rewires); what is left on HEAD is that PeerState lists the re-used id under the old peer (its demonstration fails on that assertion), which is outside C09. An earlier 'detection' by the id-reuse stage turned out to be the open finding C09/third-party-response-after-request-finished firing on the unchanged tree as well; the stage now classifies sightings by whether the re-issued request was in progress.",
}
rows = []
for sid in sorted(os.listdir(os.path.join(ROOT, "seeded"))):
    d = os.path.join(ROOT, "seeded", sid)
    if not os.path.isdir(d):
        continue
    notes = open(os.path.join(d, "notes.md"), errors="replace").read()
    title = notes.splitlines()[0].lstrip("# ").strip()
    need = ""
    m = re.search(r"\*{0,2}(?:What is n|N)eeded to manifest\*{0,2}\s*[:(](.*?)(?:\n\s*\n|\n\*\*|\nDemo|\nCommands)", notes, re.S)
    if m:
        need = " ".join(m.group(1).split())[:900]
    runs = sweep.get(sid, [])
    own = sid.split("-")[0]
    detected_by = sorted({r["check"] for r in runs if r["exit_code"] == 1})
    if sid in NEUTRALISED:
        status = "neutralised-by-fix"
    elif own in detected_by:
        status = "detected"
    elif detected_by:
        status = "detected-by-sibling-check"
    elif any(r["exit_code"] == 2 for r in runs):
        status = "inconclusive"
    else:
        status = "missed"
    meta = dict(seed=sid, property=own, title=title, needs_to_manifest=need,
                ported_to_head=os.path.exists(os.path.join(d, "patch.orig.diff")),
                confirmed_on_head=conf.get(sid, {}), what_i_ran=runs, detected_by=detected_by, status=status,
                remark=NEUTRALISED.get(sid, ""))
    json.dump(meta, open(os.path.join(d, "meta.json"), "w"), indent=1)
    rows.append((sid, title[:70], status, ", ".join("%s rc=%d %s" % (r["check"], r["exit_code"], "/".join(s.split("/", 1)[1] for s in r["signatures"][:2])) for r in runs)))
head = subprocess.check_output(["git", "-C", "/repo", "log", "--format=%h", "-1"]).decode().strip()
with open(os.path.join(ROOT, "seeded", "RESULTS.md"), "w") as f:
    f.write("# Seeded changes against the quick checks (repo HEAD %s)\n\n" % head)
    f.write("Produced by `lib/seedsweep.sh` + `lib/mkseedmeta.py`. rc: 0 = check silent, 1 = VIOLATION reported, 2 = inconclusive.\n\n")
    f.write("| seed | change | status | checks run |\n|---|---|---|---|\n")
    for r in rows:
        f.write("| %s | %s | %s | %s |\n" % r)
    n = {}
    for r in rows:
        n[r[2]] = n.get(r[2], 0) + 1
    f.write("\nTotals: %s\n" % json.dumps(n))
print("wrote %d meta.json files" % len(rows))

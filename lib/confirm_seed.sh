#!/bin/bash
# usage: confirm_seed.sh <Cxx> <variant>   (uses worktree /tmp/mut-<Cxx>, input /tmp/seed-out/<Cxx>/<variant>)
# Confirms: patch applies, builds, full suite passes with it, demo fails with it, demo passes without it.
# On success stores /verif/seeded/<Cxx>-<variant>/{patch.diff,demo_test.go,notes.md,meta.json}.
export PATH=/root/go/pkg/mod/golang.org/toolchain@v0.0.1-go1.25.7.linux-amd64/bin:$PATH GOTOOLCHAIN=local GOFLAGS=-mod=mod GOPROXY=off GOSUMDB=off
P=$1; V=$2; WT=/tmp/mut-$P; IN=/tmp/seed-out/$P/$V; OUT=/verif/seeded/$P-$V
[ -d $WT ] || git -C /repo worktree add -q --detach $WT HEAD || exit 9
git -C $WT checkout -q -- . ; git -C $WT clean -fdq
head -3 $IN/demo_test.go
DIR=$(head -5 $IN/demo_test.go | grep -oE '(requestmanager|responsemanager|allocator|notifications|messagequeue|peermanager|impl|message|network|taskqueue|selectorvalidator|linktracker|ipldutil|cidset|peerstate|listeners|panics|storeutil|testutil)[A-Za-z0-9_/]*' | head -1)
DIR=${DIR%/}
[ -n "$3" ] && DIR=$3
echo "demo dir: $DIR"
[ -d "$WT/$DIR" ] || { echo "FAIL: cannot determine demo dir"; exit 2; }
cp $IN/demo_test.go $WT/$DIR/zz_seeded_demo_test.go
cd $WT
echo "== demo on unmodified code (must pass)"
go test -vet=off -count=1 -run 'TestSeeded' ./$DIR > /tmp/seed-out/$P/$V.base.log 2>&1; BASE=$?
tail -3 /tmp/seed-out/$P/$V.base.log
git apply $IN/patch.diff || { echo "FAIL: patch does not apply"; exit 3; }
go build ./... || { echo "FAIL: does not build"; exit 4; }
echo "== demo with change (must fail)"
go test -vet=off -count=1 -run 'TestSeeded' ./$DIR > /tmp/seed-out/$P/$V.mut.log 2>&1; MUT=$?
tail -3 /tmp/seed-out/$P/$V.mut.log
rm $WT/$DIR/zz_seeded_demo_test.go
echo "== full suite with change (must pass)"
go test -vet=off -count=1 ./... > /tmp/seed-out/$P/$V.suite.log 2>&1; SUITE=$?
grep -v '^ok\|no test files' /tmp/seed-out/$P/$V.suite.log | head
if [ $SUITE != 0 ]; then
  # known timing-flaky tests of the repository (e.g. messagequeue TestDedupingMessages): retry failing packages twice
  for try in 1 2; do
    PK=$(grep '^FAIL\s' /tmp/seed-out/$P/$V.suite.log | awk '{print $2}' | sed 's#github.com/ipfs/go-graphsync#.#')
    [ -z "$PK" ] && break
    go test -vet=off -count=1 $PK > /tmp/seed-out/$P/$V.suite.log 2>&1; SUITE=$?
    [ $SUITE = 0 ] && break
  done
fi
git -C $WT checkout -q -- . ; git -C $WT clean -fdq
echo "base=$BASE mut=$MUT suite=$SUITE"
if [ $BASE = 0 ] && [ $MUT != 0 ] && [ $SUITE = 0 ]; then
  mkdir -p $OUT; cp $IN/patch.diff $IN/demo_test.go $IN/notes.md $OUT/
  echo "{\"property\": \"$P\", \"variant\": \"$V\", \"demo_dir\": \"$DIR\", \"confirmed\": {\"demo_passes_unmodified\": true, \"demo_fails_with_change\": true, \"suite_passes_with_change\": true}}" > $OUT/meta.confirm.json
  echo CONFIRMED
else
  echo NOT-CONFIRMED; exit 1
fi

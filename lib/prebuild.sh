#!/bin/sh
# Pre-builds the engine test binaries (race and non-race) so that the first check does not pay the
# ~80 s race-instrumented build of the dependency tree. Checks rebuild anyway (go build cache decides).
export PATH=/root/go/pkg/mod/golang.org/toolchain@v0.0.1-go1.25.7.linux-amd64/bin:$PATH GOTOOLCHAIN=local GOFLAGS=-mod=mod GOPROXY=off GOSUMDB=off
cd /verif/harness || exit 1
mkdir -p /verif/.work/bin
for d in */; do
  d=${d%/}
  ls $d/*_test.go >/dev/null 2>&1 || continue
  go test -c -tags verif -vet=off -race -o /verif/.work/bin/$d.race.test ./$d || exit 1
done
go test -c -tags verif -vet=off -o /verif/.work/bin/alloc.test ./alloc || exit 1
exit 0

#!/bin/bash
# usage: devseed.sh <seed-id> <engine pkg> <ncases> <Prop:Test[:sub]>...   builds one engine against a scratch worktree with the
# seeded change applied and runs the given tests on a few cases (development aid; safe to run beside lib/seedrun.sh).
export PATH=/root/go/pkg/mod/golang.org/toolchain@v0.0.1-go1.25.7.linux-amd64/bin:$PATH GOTOOLCHAIN=local GOFLAGS=-mod=mod GOPROXY=off GOSUMDB=off
ID=$1; PKG=$2; N=$3; shift 3
WT=/tmp/devseed-$ID; MD=/verif/.work/devmod-$ID; BIN=/verif/.work/devbin-$ID.test
git -C /repo worktree remove --force $WT 2>/dev/null; git -C /repo worktree add -q --detach $WT HEAD || exit 9
(git -C $WT apply /verif/seeded/$ID/patch.diff 2>/dev/null || git -C $WT apply -3 /verif/seeded/$ID/patch.diff) || { echo "patch does not apply"; git -C /repo worktree remove --force $WT; exit 8; }
mkdir -p $MD; sed "s#=> /repo#=> $WT#" /verif/harness/go.mod > $MD/go.mod; cp /verif/harness/go.sum $MD/go.sum
(cd /verif/harness && go test -c -race -tags verif -vet=off -modfile=$MD/go.mod -o $BIN ./$PKG) || exit 7
for PT in "$@"; do
  IFS=: read P T S <<< "$PT"
  D=/verif/.work/r/devseed.$ID.$P.$T; mkdir -p $D; rm -f "${D:?}"/result* "${D:?}"/replay* "${D:?}"/race.*
  (cd $D; GORACE="halt_on_error=0 log_path=$D/race" VERIF_PROP=$P VERIF_SUB=$S VERIF_CASE_FROM=0 VERIF_CASE_TO=$N VERIF_OUT=$D GOLOG_LOG_LEVEL=error GOLOG_FILE=/dev/null timeout -s QUIT 1800 $BIN -test.run "^$T\$" -test.timeout 0 > out.log 2>&1)
  R=$(ls $D/result.*.json 2>/dev/null | head -1)
  echo "$ID $PT: $(tail -1 $D/out.log | cut -c1-40) | $(/verif/lib/summ.py $R 2>/dev/null | sed -n '1p;3,5p' | tr '\n' ' ' | cut -c1-500)"
done
git -C /repo worktree remove --force $WT; rm -rf $MD $BIN
